#!/bin/sh
# Run once after a fresh restore, offline: builds the E2 harness (its dependency objects are reused by every check;
# only the `anything` crate itself is rebuilt from /repo's working tree on each run) and warms the Verus start-up.
set -e
cd "$(dirname "$0")"
export CARGO_NET_OFFLINE=true
mkdir -p .build build evidence replay
[ -f harness/Cargo.lock ] || cp /repo/Cargo.lock harness/Cargo.lock
(cd harness && CARGO_TARGET_DIR="$PWD/../.build/rac" cargo build --offline --quiet)
# the real `any` binary (C19 stand-in), built into the same target directory, never into /repo/target
CARGO_TARGET_DIR="$PWD/.build/rac" cargo build --offline --quiet --bin any --manifest-path /repo/Cargo.toml
python3 -c "
import sys; sys.path.insert(0,'.')
from vprove.run import run_unit
g,r=run_unit('POWERS','/repo'); print('verus warm-up:', r['status'])
"
# warm the Kani dependency objects (the `anything` crate itself is rebuilt from /repo's working tree on every run)
python3 -c "
import sys; sys.path.insert(0,'.')
from vprove import kani
r=kani.run_ids('/repo'); print('kani warm-up:', r['status'])
"
