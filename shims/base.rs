// numbers live in their own module so that the root module can `broadcast use` the BigInt embedding axiom
pub mod base {
use vstd::prelude::*;
use vstd::std_specs::ops::*;
use vstd::std_specs::convert::*;
/*@@ include spec/real_spec.rs @@*/
/*@@ include shims/num.rs @@*/
/*@@ include shims/num_ops.rs @@*/
}
pub use base::*;
broadcast use base::axiom_bigint_of;
