// ---------------------------------------------------------------------------------------------
// SHIM (assumed contracts): syntree::Builder viewed through (leaves, depth); read off syntree-0.14.5/src/builder.rs.
//   token(k,l)  appends a leaf; fails only if the cursor would exceed u32::MAX
//   open/close  push / pop one level; close fails only with nothing open
//   checkpoint  records the current level
//   close_at    wraps everything since the checkpoint; fails (CloseAtError) only if the checkpoint was taken under a
//               different parent -- with both at level 0 the parent is `None` on both sides, so it succeeds
//   build       fails only with an open node
// Unchecked: node-pointer overflow (Error::Overflow when the tree exceeds 2^32-1 nodes), see DESIGN §4 trusted base 4.
// ALSO: the lexer as seen from the parser: a history variable hist() records the tokens next() has returned (ghost
// bookkeeping, sound by construction); the rest of this contract is what unit LEXER proves about the real next()
// (clauses lexer.next.none / lexer.next.some): token non-empty, position advances by its length, None exactly at the end.
pub open spec fn sum_len(s: Seq<Token>) -> nat
    decreases s.len()
{
    if s.len() == 0 { 0 } else { sum_len(s.drop_last()) + s.last().len as nat }
}

pub proof fn lemma_sum_push(s: Seq<Token>, t: Token)
    ensures sum_len(s.push(t)) == sum_len(s) + t.len
{
    assert(s.push(t).drop_last() == s);
}

pub proof fn lemma_sum_concat(a: Seq<Token>, b: Seq<Token>)
    ensures sum_len(a + b) == sum_len(a) + sum_len(b)
    decreases b.len()
{
    if b.len() == 0 {
        assert(a + b == a);
    } else {
        lemma_sum_concat(a, b.drop_last());
        assert((a + b).drop_last() == a + b.drop_last());
        assert((a + b).last() == b.last());
    }
}

pub proof fn lemma_sum_front(s: Seq<Token>)
    requires s.len() > 0
    ensures sum_len(s) == s[0].len + sum_len(s.skip(1))
    decreases s.len()
{
    if s.len() == 1 {
        reveal_with_fuel(sum_len, 3);
        assert(s.drop_last().len() == 0);
        assert(s.skip(1).len() == 0);
        assert(sum_len(s.drop_last()) == 0);
        assert(sum_len(s.skip(1)) == 0);
        assert(s.last() == s[0]);
    } else {
        reveal_with_fuel(sum_len, 2);
        lemma_sum_front(s.drop_last());
        assert(s.drop_last().skip(1) == s.skip(1).drop_last());
        assert(s.skip(1).last() == s.last());
        assert(s.drop_last()[0] == s[0]);
    }
}

pub mod syntree {
    use vstd::prelude::*;
    use super::{Syntax, Token};
    #[verifier::external_body]
    pub struct Error { _p: u8 }

    #[verifier::external_body]
    pub struct Checkpoint { _p: u8 }
    impl Checkpoint {
        pub uninterp spec fn depth(&self) -> nat;
        /// how many leaves the tree had when the checkpoint was taken (a checkpoint marks a position between siblings)
        pub uninterp spec fn pos(&self) -> nat;
    }
    impl Clone for Checkpoint {
        #[verifier::external_body]
        fn clone(&self) -> (r: Self) ensures r.depth() == self.depth(), r.pos() == self.pos() { unimplemented!() }
    }

    #[verifier::external_body]
    pub struct Tree { _p: u8 }
    impl Tree {
        pub uninterp spec fn leaves(&self) -> Seq<Token>;
    }

    #[verifier::external_body]
    pub struct Builder { _p: u8 }

    impl Builder {
        pub uninterp spec fn leaves(&self) -> Seq<Token>;
        pub uninterp spec fn depth(&self) -> nat;

        #[verifier::external_body]
        pub fn new_with() -> (r: Builder)
            ensures r.leaves() == Seq::<Token>::empty(), r.depth() == 0
        { unimplemented!() }

        #[verifier::external_body]
        pub fn token(&mut self, kind: Syntax, len: usize) -> (r: Result<u32, Error>)
            ensures
                super::sum_len(old(self).leaves()) + len <= u32::MAX ==> r.is_ok(),
                r.is_ok() ==> final(self).leaves() == old(self).leaves().push(Token { len, kind }) && final(self).depth() == old(self).depth(),
        { unimplemented!() }

        #[verifier::external_body]
        pub fn open(&mut self, kind: Syntax) -> (r: Result<u32, Error>)
            ensures r.is_ok(), final(self).leaves() == old(self).leaves(), final(self).depth() == old(self).depth() + 1
        { unimplemented!() }

        #[verifier::external_body]
        pub fn close(&mut self) -> (r: Result<(), Error>)
            ensures old(self).depth() > 0 ==> r.is_ok(),
                r.is_ok() ==> final(self).leaves() == old(self).leaves() && final(self).depth() == old(self).depth() - 1
        { unimplemented!() }

        #[verifier::external_body]
        pub fn checkpoint(&mut self) -> (r: Result<Checkpoint, Error>)
            ensures r matches Ok(c) && c.depth() == old(self).depth() && c.pos() == old(self).leaves().len(), final(self).leaves() == old(self).leaves(), final(self).depth() == old(self).depth()
        { unimplemented!() }

        #[verifier::external_body]
        pub fn close_at(&mut self, c: &Checkpoint, kind: Syntax) -> (r: Result<u32, Error>)
            ensures (c.depth() == 0 && old(self).depth() == 0) ==> r.is_ok(),
                r.is_ok() ==> final(self).leaves() == old(self).leaves() && final(self).depth() == old(self).depth()
        { unimplemented!() }

        #[verifier::external_body]
        pub fn build(self) -> (r: Result<Tree, Error>)
            ensures self.depth() == 0 ==> (r matches Ok(t) && t.leaves() == self.leaves())
        { unimplemented!() }
    }
}

#[verifier::external_body]
pub struct Lexer<'a> { _p: &'a u8 }

impl<'a> Lexer<'a> {
    pub uninterp spec fn hist(&self) -> Seq<Token>;
    pub uninterp spec fn srclen(&self) -> nat;
    pub open spec fn pos(&self) -> nat { sum_len(self.hist()) }

    #[verifier::external_body]
    pub fn new(source: &'a str) -> (r: Lexer<'a>)
        ensures r.hist() == Seq::<Token>::empty(), r.srclen() == super_str_len(source)
    { unimplemented!() }

    #[verifier::external_body]
    pub fn next(&mut self) -> (r: Option<Token>)
        requires old(self).pos() <= old(self).srclen()
        ensures final(self).srclen() == old(self).srclen(),
            final(self).pos() <= final(self).srclen(),
            match r {
                Some(t) => t.len >= 1 && t.kind != Syntax::EOF && final(self).hist() == old(self).hist().push(t),
                None => final(self).hist() == old(self).hist() && old(self).pos() == old(self).srclen(),
            }
    { unimplemented!() }
}
pub uninterp spec fn super_str_len(s: &str) -> nat;

pub assume_specification<T, A: std::alloc::Allocator>[ std::collections::VecDeque::<T, A>::get ](d: &std::collections::VecDeque<T, A>, i: usize) -> (r: Option<&T>)
    ensures r == (if i < d@.len() { Some(&d@[i as int]) } else { None::<&T> });
