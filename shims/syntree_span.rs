// ---------------------------------------------------------------------------------------------
// SHIM: syntree::Span<u32> (plain data: start/end), opaque error payload types.
pub mod syntree {
    use vstd::prelude::*;
    #[derive(Clone, Copy)]
    pub struct Span<I> { pub start: I, pub end: I }
    #[verifier::external_body]
    pub struct Error { _p: u8 }
}
use syntree::Span;
#[verifier::external_body]
pub struct LookupError { _p: u8 }
#[verifier::external_body]
pub struct ParseIntError { _p: u8 }
