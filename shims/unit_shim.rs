// ---------------------------------------------------------------------------------------------
// Conversion types: the real definitions; ConversionMethods holds two fn pointers and is opaque.
#[verifier::external_body]
pub struct ConversionMethods { _p: u8 }
impl Clone for ConversionMethods { #[verifier::external_body] fn clone(&self) -> (r: Self) ensures r == *self { unimplemented!() } }
impl Copy for ConversionMethods {}

/*@@ item src/unit.rs :: struct ConversionFraction
attrs #[derive(Clone, Copy)]
@@*/

/*@@ item src/unit.rs :: enum Conversion
attrs #[derive(Clone, Copy)]
@@*/

/// R6 outline of `(methods.to)(ratio)` (indirect call through a fn pointer)
#[verifier::external_body]
fn call_methods_to(methods: ConversionMethods, ratio: &mut Rational)
    ensures final(ratio)@ == methods_to(methods, old(ratio)@)
{ unimplemented!() }

#[verifier::external_body]
fn call_methods_from(methods: ConversionMethods, ratio: &mut Rational)
    ensures final(ratio)@ == methods_from(methods, old(ratio)@)
{ unimplemented!() }

/// R6 outline of `(derived.vtable.powers)(powers, power)`: adds power * derived_dim (assumed-by-table, proved per closure in TABLES)
#[verifier::external_body]
fn call_vtable_powers(derived: Derived, powers: &mut Powers, power: i32)
    requires
        old(powers).wf(), power != 0, -100000 <= power <= 100000, pw_bounded(old(powers)@, 100_000_000),
    ensures
        final(powers).wf(),
        forall|k: Unit| pw_get(final(powers)@, k) == pw_get(old(powers)@, k) + power as int * derived_dim(derived, k),
        dim_table_ok(Unit::Derived(derived)),
{ unimplemented!() }

impl Unit {
/*@@ item src/unit.rs :: impl Unit :: fn powers
props C02 C04 C05
ret r
rewrite R6 "(derived.vtable.powers)(powers, power)" => "call_vtable_powers(derived, powers, power)"
ghost body-start proof { if !(self is Derived) { assert(udim(self, self) == 1); } }
requires [unit.powers.pre] old(powers).wf() && power != 0 && -100000 <= power <= 100000 && pw_bounded(old(powers)@, 100_000_000)
ensures [unit.powers.adds_dim C02 C04 C05] forall|k: Unit| pw_get(final(powers)@, k) == pw_get(old(powers)@, k) + power as int * udim(self, k)
ensures [unit.powers.wf C02 C04] final(powers).wf()
ensures [unit.powers.ret C04] r == (self is Derived)
ensures [unit.powers.table C02] dim_table_ok(self)
@@*/

/// R6 outline of the vtable read `d.vtable.conversion` (DerivedVtable is opaque)
    #[verifier::external_body]
    pub fn conversion(&self) -> (r: Option<Conversion>)
        ensures r == unit_conv(*self), r matches Some(c) ==> conv_ok(c)
    { unimplemented!() }

/*@@ item src/unit.rs :: impl Unit :: fn prefix_bias
props C05
ret r
ensures [unit.prefix_bias.kg C05] r == (if *self is KiloGram { 3i32 } else { 0i32 })
@@*/
}
