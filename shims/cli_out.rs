// SHIM (assumed): the output stream of `src/bin/any.rs` as a log of formatted pieces.  R17 turns `write!(out, FMT, a, b)` into
// `out.put2(FMT, false, a, b)`; a piece records the format string and WHAT each argument shows (which number, which unit, which
// options) -- not the characters the `Display` impls then produce (num-bigint's Display is external; the decimal rendering is C08's
// subject; the unit rendering is covered by the bounded stand-in only).
pub enum Arg {
    /// an integer printed in full
    Int(int),
    /// a rational printed as a decimal: value, digit limit, exponent limit, continuation mark
    Dec(real, nat, nat, bool),
    /// a unit printed with or without pluralisation
    Unit(Map<Unit, State>, bool),
}
pub trait Shown {
    spec fn shown(&self) -> Arg;
}
pub struct Piece {
    pub fmt: Seq<char>,
    pub args: Seq<Arg>,
    pub newline: bool,
}
#[verifier::external_body]
pub struct IoError { _p: u8 }
#[verifier::external_body]
pub struct Out { _p: u8 }
impl Out {
    pub uninterp spec fn log(&self) -> Seq<Piece>;
    /// an error leaves the log unspecified (the caller propagates it and stops)
    #[verifier::external_body]
    pub fn put0(&mut self, fmt: &str, newline: bool) -> (r: core::result::Result<(), IoError>)
        ensures r is Ok ==> final(self).log() == old(self).log().push(Piece { fmt: fmt@, args: seq![], newline }),
    { unimplemented!() }
    #[verifier::external_body]
    pub fn put1<A: Shown>(&mut self, fmt: &str, newline: bool, a: A) -> (r: core::result::Result<(), IoError>)
        ensures r is Ok ==> final(self).log() == old(self).log().push(Piece { fmt: fmt@, args: seq![a.shown()], newline }),
    { unimplemented!() }
    #[verifier::external_body]
    pub fn put2<A: Shown, B: Shown>(&mut self, fmt: &str, newline: bool, a: A, b: B) -> (r: core::result::Result<(), IoError>)
        ensures r is Ok ==> final(self).log() == old(self).log().push(Piece { fmt: fmt@, args: seq![a.shown(), b.shown()], newline }),
    { unimplemented!() }
}
impl<'a> Shown for &'a BigInt {
    open spec fn shown(&self) -> Arg { Arg::Int((**self)@) }
}
