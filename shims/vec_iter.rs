// ---------------------------------------------------------------------------------------------
// SHIM (assumed contracts): by-value iteration over a Vec (`IntoIterator for Vec<T>`), in the same rem()-style as the
// BTreeMap iterators: yields the elements in order.
#[verifier::external_body]
#[verifier::reject_recursive_types(T)]
pub struct VecIntoIter<T> { _p: core::marker::PhantomData<T> }
impl<T> VecIntoIter<T> {
    pub uninterp spec fn rem(&self) -> Seq<T>;
    #[verifier::external_body]
    pub fn next(&mut self) -> (r: Option<T>)
        ensures
            old(self).rem().len() == 0 ==> r.is_none() && final(self).rem() == old(self).rem(),
            old(self).rem().len() > 0 ==> (r == Some(old(self).rem()[0]) && final(self).rem() == old(self).rem().skip(1)),
    { unimplemented!() }
}
#[verifier::external_body]
pub fn vec_into_iter<T>(v: Vec<T>) -> (it: VecIntoIter<T>)
    ensures it.rem() == v@
{ unimplemented!() }

// `slice.iter().enumerate()`: yields (index, &element) in order (assumed; iterator adapters are outside Verus)
#[verifier::external_body]
#[verifier::reject_recursive_types(T)]
pub struct SliceEnumIter<'a, T> { _p: core::marker::PhantomData<&'a T> }
impl<'a, T> SliceEnumIter<'a, T> {
    pub uninterp spec fn rem(&self) -> Seq<T>;
    pub uninterp spec fn idx(&self) -> nat;
    #[verifier::external_body]
    pub fn next(&mut self) -> (r: Option<(usize, &'a T)>)
        ensures
            old(self).rem().len() == 0 ==> r.is_none() && final(self).rem() == old(self).rem() && final(self).idx() == old(self).idx(),
            old(self).rem().len() > 0 ==> (r matches Some(p) && p.0 == old(self).idx() && *p.1 == old(self).rem()[0] && final(self).rem() == old(self).rem().skip(1) && final(self).idx() == old(self).idx() + 1),
    { unimplemented!() }
}
#[verifier::external_body]
pub fn slice_enum_iter<'a, T>(s: &'a [T]) -> (it: SliceEnumIter<'a, T>)
    ensures it.rem() == s@, it.idx() == 0
{ unimplemented!() }
