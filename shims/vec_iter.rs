// ---------------------------------------------------------------------------------------------
// SHIM (assumed contracts): by-value iteration over a Vec (`IntoIterator for Vec<T>`), in the same rem()-style as the
// BTreeMap iterators: yields the elements in order.
#[verifier::external_body]
#[verifier::reject_recursive_types(T)]
pub struct VecIntoIter<T> { _p: core::marker::PhantomData<T> }
impl<T> VecIntoIter<T> {
    pub uninterp spec fn rem(&self) -> Seq<T>;
    #[verifier::external_body]
    pub fn next(&mut self) -> (r: Option<T>)
        ensures
            old(self).rem().len() == 0 ==> r.is_none() && final(self).rem() == old(self).rem(),
            old(self).rem().len() > 0 ==> (r == Some(old(self).rem()[0]) && final(self).rem() == old(self).rem().skip(1)),
    { unimplemented!() }
}
#[verifier::external_body]
pub fn vec_into_iter<T>(v: Vec<T>) -> (it: VecIntoIter<T>)
    ensures it.rem() == v@
{ unimplemented!() }
