// ---------------------------------------------------------------------------------------------
// SHIM (assumed contracts): std::collections::BTreeMap and its entry / iterator API.
// View: Map<K,V>;  entries(): the key-ordered sequence of pairs the real iterators yield.
// Key identity is spec equality (for `Unit` this is faithful because `Derived` compares by id and
// an id determines the unit: trusted-base item "ids identify derived units", see C17).
#[verifier::external_body]
#[verifier::reject_recursive_types(K)]
#[verifier::reject_recursive_types(V)]
pub struct BTreeMap<K, V> { _k: core::marker::PhantomData<(K, V)> }

impl<K, V> BTreeMap<K, V> {
    pub uninterp spec fn view(&self) -> Map<K, V>;
    pub uninterp spec fn entries(&self) -> Seq<(K, V)>;

    #[verifier::external_body]
    pub fn new() -> (r: BTreeMap<K, V>)
        ensures r@ == Map::<K, V>::empty()
    { unimplemented!() }

    #[verifier::external_body]
    pub fn is_empty(&self) -> (r: bool)
        ensures r == (self@.dom().len() == 0), r == (self@ =~= Map::<K, V>::empty()), self@.dom().finite()
    { unimplemented!() }

    #[verifier::external_body]
    pub fn len(&self) -> (r: usize)
        ensures r == self@.dom().len(), self@.dom().finite()
    { unimplemented!() }

    #[verifier::external_body]
    pub fn clear(&mut self)
        ensures final(self)@ == Map::<K, V>::empty()
    { unimplemented!() }

    #[verifier::external_body]
    pub fn get(&self, key: &K) -> (r: Option<&V>)
        ensures r == (if self@.contains_key(*key) { Some(&self@[*key]) } else { None })
    { unimplemented!() }

    #[verifier::external_body]
    pub fn contains_key(&self, key: &K) -> (r: bool)
        ensures r == self@.contains_key(*key)
    { unimplemented!() }

    #[verifier::external_body]
    pub fn remove(&mut self, key: &K) -> (r: Option<V>)
        ensures final(self)@ == old(self)@.remove(*key),
            r == (if old(self)@.contains_key(*key) { Some(old(self)@[*key]) } else { None })
    { unimplemented!() }

    #[verifier::external_body]
    pub fn get_mut(&mut self, key: &K) -> (r: Option<&mut V>)
        ensures
            !old(self)@.contains_key(*key) ==> r.is_none() && final(self)@ == old(self)@,
            old(self)@.contains_key(*key) ==> (r matches Some(v) && *v == old(self)@[*key] && final(self)@ == old(self)@.insert(*key, *final(v))),
    { unimplemented!() }

    #[verifier::external_body]
    pub fn insert(&mut self, key: K, value: V) -> (r: Option<V>)
        ensures final(self)@ == old(self)@.insert(key, value),
            r == (if old(self)@.contains_key(key) { Some(old(self)@[key]) } else { None })
    { unimplemented!() }

    #[verifier::external_body]
    pub fn entry(&mut self, key: K) -> (e: btree_map::Entry<'_, K, V>)
        ensures
            match e {
                btree_map::Entry::Vacant(v) => !old(self)@.contains_key(key) && v.key == key && *v.map == *old(self) && *final(v.map) == *final(self),
                btree_map::Entry::Occupied(o) => old(self)@.contains_key(key) && o.key == key && *o.map == *old(self) && *final(o.map) == *final(self),
            }
    { unimplemented!() }

    #[verifier::external_body]
    pub fn iter(&self) -> (it: btree_map::Iter<'_, K, V>)
        ensures it.rem() == self.entries()
    { unimplemented!() }

    #[verifier::external_body]
    pub fn into_iter(self) -> (it: btree_map::IntoIter<K, V>)
        ensures it.rem() == self.entries()
    { unimplemented!() }

    /// entries() enumerates view() exactly once per key (assumed: BTreeMap iteration).
    #[verifier::external_body]
    pub proof fn entries_spec(&self)
        ensures
            self@.dom().finite(),
            self.entries().len() == self@.dom().len(),
            forall|i: int| 0 <= i < self.entries().len() ==> self@.contains_key(#[trigger] self.entries()[i].0) && self@[self.entries()[i].0] == self.entries()[i].1,
            forall|i: int, j: int| 0 <= i < j < self.entries().len() ==> (#[trigger] self.entries()[i]).0 != (#[trigger] self.entries()[j]).0,
            forall|k: K| self@.contains_key(k) ==> exists|i: int| 0 <= i < self.entries().len() && (#[trigger] self.entries()[i]).0 == k,
    { }
}

impl<K: Copy, V: Copy> Clone for BTreeMap<K, V> {
    #[verifier::external_body]
    fn clone(&self) -> (r: Self)
        ensures r@ == self@, r.entries() == self.entries()
    { unimplemented!() }
}

pub mod btree_map {
    use vstd::prelude::*;
    use super::BTreeMap;
    #[verifier::reject_recursive_types(K)]
    #[verifier::reject_recursive_types(V)]
    pub enum Entry<'a, K, V> {
        Vacant(VacantEntry<'a, K, V>),
        Occupied(OccupiedEntry<'a, K, V>),
    }
    #[verifier::reject_recursive_types(K)]
    #[verifier::reject_recursive_types(V)]
    pub struct VacantEntry<'a, K, V> { pub map: &'a mut BTreeMap<K, V>, pub key: K }
    #[verifier::reject_recursive_types(K)]
    #[verifier::reject_recursive_types(V)]
    pub struct OccupiedEntry<'a, K, V> { pub map: &'a mut BTreeMap<K, V>, pub key: K }

    impl<'a, K, V> VacantEntry<'a, K, V> {
        #[verifier::external_body]
        pub fn insert(self, v: V)
            ensures final(self.map)@ == old(self.map)@.insert(self.key, v)
        { unimplemented!() }
    }
    impl<'a, K, V> OccupiedEntry<'a, K, V> {
        #[verifier::external_body]
        pub fn get(&self) -> (r: &V)
            ensures *r == old(self.map)@[self.key]
        { unimplemented!() }

        #[verifier::external_body]
        pub fn get_mut(&mut self) -> (r: &mut V)
            ensures
                *r == old(self).map@[old(self).key],
                final(self).key == old(self).key,
                *final(final(self).map) == *final(old(self).map),
                final(self).map@ == old(self).map@.insert(old(self).key, *final(r)),
        { unimplemented!() }

        #[verifier::external_body]
        pub fn remove_entry(self) -> (r: (K, V))
            ensures final(self.map)@ == old(self.map)@.remove(self.key), r.0 == self.key, r.1 == old(self.map)@[self.key]
        { unimplemented!() }
    }

    #[verifier::external_body]
    #[verifier::reject_recursive_types(K)]
    #[verifier::reject_recursive_types(V)]
    pub struct Iter<'a, K, V> { _k: core::marker::PhantomData<&'a (K, V)> }
    impl<'a, K, V> Iter<'a, K, V> {
        pub uninterp spec fn rem(&self) -> Seq<(K, V)>;
        #[verifier::external_body]
        pub fn next(&mut self) -> (r: Option<(&'a K, &'a V)>)
            ensures
                old(self).rem().len() == 0 ==> r.is_none() && final(self).rem() == old(self).rem(),
                old(self).rem().len() > 0 ==> (r matches Some(kv) && *kv.0 == old(self).rem()[0].0 && *kv.1 == old(self).rem()[0].1 && final(self).rem() == old(self).rem().skip(1)),
        { unimplemented!() }
    }

    #[verifier::external_body]
    #[verifier::reject_recursive_types(K)]
    #[verifier::reject_recursive_types(V)]
    pub struct IntoIter<K, V> { _k: core::marker::PhantomData<(K, V)> }
    impl<K, V> IntoIter<K, V> {
        pub uninterp spec fn rem(&self) -> Seq<(K, V)>;
        #[verifier::external_body]
        pub fn next(&mut self) -> (r: Option<(K, V)>)
            ensures
                old(self).rem().len() == 0 ==> r.is_none() && final(self).rem() == old(self).rem(),
                old(self).rem().len() > 0 ==> (r == Some(old(self).rem()[0]) && final(self).rem() == old(self).rem().skip(1)),
        { unimplemented!() }
    }
}
