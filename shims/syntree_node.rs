// ---------------------------------------------------------------------------------------------
// SHIM (assumed contracts): the part of syntree's node API that eval::unit uses, and the word splitter.
// A node is viewed as UNode { kind, span, int, units, units_ok }:
//   int       what `str::parse::<i32>` returns for the node's text (None = parse error)            -- R6 outline, assumed
//   units     the (prefix, unit) pairs UnitParser (generated::unit::parse, logos output) yields for a WORD's text, in order
//   units_ok  whether the whole word was consumed (otherwise the parser ends with Err(rest))      -- assumed; decided for the
//             real vocabulary by the C05 stand-in (finite and complete over names x prefixes)
pub struct UNode { pub kind: Syntax, pub span: Span<u32>, pub int: Option<i32>, pub units: Seq<(i32, Unit)>, pub units_ok: bool }

#[verifier::external_body]
pub struct Node<'a> { _p: &'a u8 }
impl<'a> Node<'a> {
    pub uninterp spec fn view(&self) -> UNode;
    #[verifier::external_body]
    pub fn value(&self) -> (r: &Syntax) ensures *r == self@.kind { unimplemented!() }
    #[verifier::external_body]
    pub fn span(&self) -> (r: &Span<u32>) ensures *r == self@.span { unimplemented!() }
    /// the first child (node or token) of this node
    pub uninterp spec fn first_spec(&self) -> Option<Node<'a>>;
    #[verifier::external_body]
    pub fn first(&self) -> (r: Option<Node<'a>>) ensures r == self.first_spec() { unimplemented!() }
}
impl<'a> Clone for Node<'a> { #[verifier::external_body] fn clone(&self) -> (r: Self) ensures r@ == self@ { unimplemented!() } }
impl<'a> Copy for Node<'a> {}

#[verifier::external_body]
pub struct Children<'a> { _p: &'a u8 }
impl<'a> Children<'a> {
    pub uninterp spec fn rem(&self) -> Seq<UNode>;
    #[verifier::external_body]
    pub fn next_node(&mut self) -> (r: Option<Node<'a>>)
        ensures
            old(self).rem().len() == 0 ==> r is None && final(self).rem() == old(self).rem(),
            old(self).rem().len() > 0 ==> (r matches Some(n) && n@ == old(self).rem()[0] && final(self).rem() == old(self).rem().skip(1)),
    { unimplemented!() }
}

/// R6 outline of `str::parse::<i32>(&source[node.range()])` / `..(&source[span.range()])`
#[verifier::external_body]
fn outlined_parse_i32(source: &str, node: &Node<'_>) -> (r: core::result::Result<i32, ParseIntError>)
    ensures (r matches Ok(v) && node@.int == Some(v)) || (r is Err && node@.int is None)
{ unimplemented!() }

/// the text of a WORD node; its units are carried along as ghost attributes of the string slice
pub uninterp spec fn str_units(s: &str) -> (Seq<(i32, Unit)>, bool);
/// R6 outline of `&source[node.range()]`
#[verifier::external_body]
fn outlined_word<'s>(source: &'s str, node: &Node<'_>) -> (r: &'s str)
    ensures str_units(r) == (node@.units, node@.units_ok)
{ unimplemented!() }

/// R6 outline of `unit.into()` (&str -> Box<str>, payload of an error message)
#[verifier::external_body]
fn outlined_box_str(s: &str) -> (r: Box<str>) { unimplemented!() }

/// src/unit_parser.rs: a 4-line wrapper over the logos-generated `generated::unit::parse` (outside both verifiers): assumed
#[verifier::external_body]
pub struct UnitParser<'a> { _p: &'a u8 }
impl<'a> UnitParser<'a> {
    pub uninterp spec fn rem(&self) -> Seq<(i32, Unit)>;
    pub uninterp spec fn ok(&self) -> bool;
    #[verifier::external_body]
    pub fn new(source: &'a str) -> (r: UnitParser<'a>)
        ensures r.rem() == str_units(source).0, r.ok() == str_units(source).1
    { unimplemented!() }
    #[verifier::external_body]
    pub fn next(&mut self) -> (r: core::result::Result<Option<(i32, Unit)>, &'a str>)
        ensures
            final(self).ok() == old(self).ok(),
            old(self).rem().len() > 0 ==> r == Ok::<Option<(i32, Unit)>, &'a str>(Some(old(self).rem()[0])) && final(self).rem() == old(self).rem().skip(1),
            old(self).rem().len() == 0 && old(self).ok() ==> r == Ok::<Option<(i32, Unit)>, &'a str>(None) && final(self).rem() == old(self).rem(),
            old(self).rem().len() == 0 && !old(self).ok() ==> r is Err && final(self).rem() == old(self).rem(),
    { unimplemented!() }
}

pub assume_specification<T, E>[ core::result::Result::<Option<T>, E>::transpose ](r: core::result::Result<Option<T>, E>) -> (o: Option<core::result::Result<T, E>>)
    ensures o == (match r { Ok(Some(x)) => Some(Ok(x)), Ok(None) => None, Err(e) => Some(Err(e)) });
