// ---------------------------------------------------------------------------------------------
// SHIM (assumed contracts): std::iter::Peekable<std::str::Bytes> as used by `impl FromStr for Rational`.
// pk_rem(it) = the bytes not yet yielded.  The constructor `number.bytes().peekable()` is an R6 outline
// (provided trait methods cannot carry an assume_specification).
pub uninterp spec fn pk_rem<I: Iterator>(it: &Peekable<I>) -> Seq<I::Item>;
/// the UTF-8 bytes of a str, in order (str byte reasoning is outside Verus)
pub uninterp spec fn str_bytes(s: &str) -> Seq<u8>;

#[verifier::external_type_specification]
#[verifier::external_body]
#[verifier::reject_recursive_types(I)]
pub struct ExPeekable<I: Iterator>(Peekable<I>);

#[verifier::external_type_specification]
#[verifier::external_body]
pub struct ExBytes<'a>(Bytes<'a>);

/// R6 outline of `number.bytes().peekable()`
#[verifier::external_body]
fn outlined_bytes_peekable<'a>(s: &'a str) -> (it: Peekable<Bytes<'a>>)
    ensures pk_rem(&it) == str_bytes(s)
{ s.bytes().peekable() }

pub assume_specification<I: Iterator>[ Peekable::<I>::peek ](it: &mut Peekable<I>) -> (r: Option<&I::Item>)
    ensures pk_rem(final(it)) == pk_rem(old(it)),
        r == (if pk_rem(old(it)).len() > 0 { Some(&pk_rem(old(it))[0]) } else { None::<&I::Item> });

pub assume_specification<I: Iterator>[ <Peekable<I> as Iterator>::next ](it: &mut Peekable<I>) -> (r: Option<I::Item>)
    ensures
        r == (if pk_rem(old(it)).len() > 0 { Some(pk_rem(old(it))[0]) } else { None::<I::Item> }),
        pk_rem(final(it)) == (if pk_rem(old(it)).len() > 0 { pk_rem(old(it)).skip(1) } else { pk_rem(old(it)) });
