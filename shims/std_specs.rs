// ---------------------------------------------------------------------------------------------
// SHIM (assumed contracts on std items vstd does not cover)
pub assume_specification<'a, T: Copy>[ Option::<&'a T>::copied ](o: Option<&'a T>) -> (r: Option<T>)
    ensures r == (match o { Some(x) => Some(*x), None => None::<T> });
