// ---------------------------------------------------------------------------------------------
// SHIM (assumed contracts on std items vstd does not cover)
pub assume_specification<'a, T: Copy>[ Option::<&'a T>::copied ](o: Option<&'a T>) -> (r: Option<T>)
    ensures r == (match o { Some(x) => Some(*x), None => None::<T> });

/// i32::abs panics (debug) / wraps (release) on i32::MIN: precondition
pub assume_specification [i32::abs] (x: i32) -> (r: i32)
    requires x > i32::MIN
    ensures r == (if x >= 0 { x as int } else { -(x as int) });

pub assume_specification [i32::signum] (x: i32) -> (r: i32)
    ensures r == (if x > 0 { 1i32 } else if x < 0 { -1i32 } else { 0i32 });

