// SHIM (assumed): `std::fmt::Formatter` as a log of output events.  What the `Display` impls of the leaf types write is recorded as an
// event naming the VALUE shown (a decimal digit, an integer, an exponent), not its characters: u8 / BigInt / i32 `Display` are std / num code.
pub enum Ev {
    /// a single character written with `write_char`
    Ch(char),
    /// a string literal written with `write_str`
    Str(Seq<char>),
    /// `Display` of a u8 that is a decimal digit
    Dig(u8),
    /// `Display` of a BigInt: its decimal numeral
    Int(int),
    /// `write!(f, "e{}", exp)`: the exponent marker followed by the (signed) exponent
    Exp(int),
    /// `Display` of a usize: its decimal numeral
    Num(int),
}
/// R17: what `fmt::Display::fmt(x, f)` / `x.fmt(f)` shows, by the type of x (std / num-bigint `Display` impls, assumed):
/// a char shows itself, a u8 its value (a digit in this code), a usize / BigInt its decimal numeral
pub trait FmtArg {
    spec fn ev(&self) -> Ev;
}
impl FmtArg for char { open spec fn ev(&self) -> Ev { Ev::Ch(*self) } }
impl FmtArg for u8 { open spec fn ev(&self) -> Ev { Ev::Dig(*self) } }
impl FmtArg for usize { open spec fn ev(&self) -> Ev { Ev::Num(*self as int) } }
impl FmtArg for BigInt { open spec fn ev(&self) -> Ev { Ev::Int(self@) } }
pub mod fmt {
    use vstd::prelude::*;
    use super::*;
    pub struct Error;
    pub type Result = core::result::Result<(), Error>;
    #[verifier::external_body]
    pub struct Formatter<'a> { _p: &'a u8 }
    impl<'a> Formatter<'a> {
        pub uninterp spec fn log(&self) -> Seq<Ev>;
        #[verifier::external_body]
        pub fn write_char(&mut self, c: char) -> (r: Result)
            ensures r is Ok ==> final(self).log() == old(self).log().push(Ev::Ch(c)),
        { unimplemented!() }
        #[verifier::external_body]
        pub fn write_str(&mut self, s: &str) -> (r: Result)
            ensures r is Ok ==> final(self).log() == old(self).log().push(Ev::Str(s@)),
        { unimplemented!() }
        /// R17: `fmt::Display::fmt(x, f)` / `x.fmt(f)`
        #[verifier::external_body]
        pub fn put<A: FmtArg>(&mut self, x: &A) -> (r: Result)
            ensures r is Ok ==> final(self).log() == old(self).log().push(x.ev()),
        { unimplemented!() }
        /// R17: `write!(f, "e{}", exp)` with `exp: i32`
        #[verifier::external_body]
        pub fn put1(&mut self, fmt: &str, newline: bool, exp: i32) -> (r: Result)
            ensures r is Ok ==> final(self).log() == old(self).log().push(Ev::Exp(exp as int)),
        { unimplemented!() }
    }
}
