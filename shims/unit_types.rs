// ---------------------------------------------------------------------------------------------
// Unit / Derived: the real type definitions (attributes replaced, R1); the vtable is opaque because
// Verus has no function-pointer types (DESIGN §2).
#[verifier::external_body]
pub struct DerivedVtable { _p: u8 }

/*@@ item src/unit.rs :: struct Derived
attrs #[derive(Clone, Copy)]
@@*/

/*@@ item src/unit.rs :: enum Unit
attrs #[derive(Clone, Copy)]
@@*/
