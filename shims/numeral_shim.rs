// SHIM (assumed): `BigInt::to_string()` (num-bigint's Display through ToString) yields the decimal numeral of the value, and
// `String::chars().peekable()` walks it: the String / Chars / Peekable types are replaced by sequence-viewed stand-ins.
/// the decimal numeral of a positive integer, most significant digit first (uninterpreted; axiom_numeral states what is assumed of it)
pub uninterp spec fn numeral(v: int) -> Seq<char>;
pub open spec fn digit_of(c: char) -> int { c as u32 as int - 48 }
pub open spec fn is_digit(c: char) -> bool { 0 <= digit_of(c) <= 9 }
/// the number a digit string spells
pub open spec fn num_value(s: Seq<char>) -> int
    decreases s.len()
{
    if s.len() == 0 { 0 } else { num_value(s.drop_last()) * 10 + digit_of(s.last()) }
}
/// ASSUMED of num-bigint: for v >= 1 the numeral is a non-empty string of digits without a leading zero that spells v
#[verifier::external_body]
pub proof fn axiom_numeral(v: int)
    requires v >= 1
    ensures
        numeral(v).len() >= 1,
        forall|i: int| 0 <= i < numeral(v).len() ==> is_digit(#[trigger] numeral(v)[i]),
        numeral(v)[0] != '0',
        num_value(numeral(v)) == v,
{ }
#[verifier::external_body]
pub struct NumString { _p: u8 }
impl NumString {
    pub uninterp spec fn view(&self) -> Seq<char>;
    #[verifier::external_body]
    pub fn chars(&self) -> (r: NumChars<'_>) ensures r.rem() == self@ { unimplemented!() }
}
impl BigInt {
    #[verifier::external_body]
    pub fn to_string(&self) -> (r: NumString) ensures r@ == numeral(self@), r@.len() <= usize::MAX { unimplemented!() }
}
#[verifier::external_body]
pub struct NumChars<'a> { _p: &'a u8 }
impl<'a> NumChars<'a> {
    pub uninterp spec fn rem(&self) -> Seq<char>;
    #[verifier::external_body]
    pub fn peekable(self) -> (r: PeekChars<'a>) ensures r.rem() == self.rem() { unimplemented!() }
}
#[verifier::external_body]
pub struct PeekChars<'a> { _p: &'a u8 }
impl<'a> PeekChars<'a> {
    pub uninterp spec fn rem(&self) -> Seq<char>;
    #[verifier::external_body]
    pub fn next(&mut self) -> (r: Option<char>)
        ensures
            old(self).rem().len() == 0 ==> r is None && final(self).rem() == old(self).rem(),
            old(self).rem().len() > 0 ==> r == Some(old(self).rem()[0]) && final(self).rem() == old(self).rem().skip(1),
    { unimplemented!() }
    #[verifier::external_body]
    pub fn peek(&mut self) -> (r: Option<&char>)
        ensures final(self).rem() == old(self).rem(), (r is Some) == (old(self).rem().len() > 0)
    { unimplemented!() }
    #[verifier::external_body]
    pub fn clone(&self) -> (r: PeekChars<'a>) ensures r.rem() == self.rem() { unimplemented!() }
    #[verifier::external_body]
    pub fn count(self) -> (r: usize) ensures r as int == self.rem().len() { unimplemented!() }
}
