// ---------------------------------------------------------------------------------------------
// SHIM (assumed): a model of `&str` positions.  rest(src, pos) = the characters from byte offset `pos`, None if `pos`
// is not a character boundary.  utf8_len(c) in 1..=4.  Only the three lexer leaves peek / peek2 / step touch the str.
pub uninterp spec fn rest(src: &str, pos: usize) -> Option<Seq<char>>;
pub uninterp spec fn utf8_len(c: char) -> usize;
pub uninterp spec fn str_len(src: &str) -> usize;

#[verifier::external_body]
pub proof fn axiom_utf8_len(c: char)
    ensures 1 <= utf8_len(c) <= 4
{ }

/// offsets: rest(src,0) is defined; rest(src,p) == Some([]) exactly at p == len; a defined rest never exceeds the bytes left
#[verifier::external_body]
pub proof fn axiom_rest(src: &str, pos: usize)
    ensures
        rest(src, 0) is Some,
        rest(src, pos) matches Some(s) ==> pos <= str_len(src) && s.len() <= str_len(src) - pos && (s.len() == 0 <==> pos == str_len(src)),
{ }
