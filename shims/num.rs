// ---------------------------------------------------------------------------------------------
// SHIM (assumed contracts): num::{BigInt, BigRational} as used by /repo.
// BigInt@ : int, BigRational@ : real.  Every operation is specified as the exact ring/field
// operation; panics of the real library (zero denominator, reciprocal of zero) are preconditions.
pub uninterp spec fn q_numer(x: real) -> int;
pub uninterp spec fn q_denom(x: real) -> int;

/// numer/denom are the reduced fraction with positive denominator (assumed: num::Ratio keeps it reduced)
#[verifier::external_body]
pub proof fn axiom_q_reduced(x: real)
    ensures
        q_denom(x) >= 1,
        x == q_numer(x) as real / q_denom(x) as real,
        (q_denom(x) == 1) == is_int(x),
        is_int(x) ==> q_numer(x) as real == x,
        (q_numer(x) == 0) == (x == 0real),
        (q_numer(x) > 0) == (x > 0real),
{ }

/// the part of axiom_q_reduced that involves no division (cheap for the solver)
#[verifier::external_body]
pub proof fn axiom_q_denom(x: real)
    ensures
        q_denom(x) >= 1,
        (q_denom(x) == 1) == is_int(x),
        is_int(x) ==> q_numer(x) as real == x,
        (q_numer(x) == 0) == (x == 0real),
        (q_numer(x) > 0) == (x > 0real),
{ }

#[verifier::external_body]
pub struct BigInt { _p: u8 }

#[verifier::external_body]
pub struct BigRational { _p: u8 }

pub enum Sign { Minus, NoSign, Plus }

impl BigInt {
    pub uninterp spec fn view(&self) -> int;

    #[verifier::external_body]
    pub fn is_zero(&self) -> (r: bool) ensures r == (self@ == 0) { unimplemented!() }
    #[verifier::external_body]
    pub fn is_one(&self) -> (r: bool) ensures r == (self@ == 1) { unimplemented!() }
    /// num::Signed::signum
    #[verifier::external_body]
    pub fn signum(&self) -> (r: BigInt) ensures r@ == (if self@ > 0 { 1int } else if self@ < 0 { -1int } else { 0int }) { unimplemented!() }
    #[verifier::external_body]
    pub fn sign(&self) -> (r: Sign) ensures r == (if self@ > 0 { Sign::Plus } else if self@ < 0 { Sign::Minus } else { Sign::NoSign }) { unimplemented!() }
    /// num::Signed::is_negative
    #[verifier::external_body]
    pub fn is_negative(&self) -> (r: bool) ensures r == (self@ < 0) { unimplemented!() }
    #[verifier::external_body]
    pub fn abs(&self) -> (r: BigInt) ensures r@ == (if self@ >= 0 { self@ } else { -self@ }) { unimplemented!() }
    #[verifier::external_body]
    pub fn from_u32(x: u32) -> (r: BigInt) ensures r@ == x as int { unimplemented!() }
    /// num::One / num::Zero for BigInt
    #[verifier::external_body]
    pub fn one() -> (r: BigInt) ensures r@ == 1 { unimplemented!() }
    #[verifier::external_body]
    pub fn zero() -> (r: BigInt) ensures r@ == 0 { unimplemented!() }
    #[verifier::external_body]
    pub fn is_positive(&self) -> (r: bool) ensures r == (self@ > 0) { unimplemented!() }
    /// BigInt::pow(&self, u32) (inherent; also num::traits::Pow<u32>)
    #[verifier::external_body]
    pub fn pow(&self, exponent: u32) -> (r: BigInt) ensures r@ == ipow(self@, exponent as nat) { unimplemented!() }
    /// num::ToPrimitive::to_i32
    #[verifier::external_body]
    pub fn to_i32(&self) -> (r: Option<i32>) ensures r == (if i32::MIN <= self@ <= i32::MAX { Some(self@ as i32) } else { None::<i32> }) { unimplemented!() }
    /// num::ToPrimitive::to_u8
    #[verifier::external_body]
    pub fn to_u8(&self) -> (r: Option<u8>) ensures r == (if 0 <= self@ <= 255 { Some(self@ as u8) } else { None::<u8> }) { unimplemented!() }
}

impl Clone for BigInt {
    #[verifier::external_body]
    fn clone(&self) -> (r: Self) ensures r@ == self@ { unimplemented!() }
}

impl BigRational {
    pub uninterp spec fn view(&self) -> real;

    /// panics on a zero denominator
    #[verifier::external_body]
    pub fn new(numer: BigInt, denom: BigInt) -> (r: BigRational)
        requires denom@ != 0
        ensures r@ == numer@ as real / denom@ as real
    { unimplemented!() }
    #[verifier::external_body]
    pub fn from_integer(n: BigInt) -> (r: BigRational) ensures r@ == n@ as real { unimplemented!() }
    #[verifier::external_body]
    pub fn is_positive(&self) -> (r: bool) ensures r == (self@ > 0real) { unimplemented!() }
    #[verifier::external_body]
    pub fn abs(&self) -> (r: BigRational) ensures r@ == (if self@ >= 0real { self@ } else { -self@ }) { unimplemented!() }
    #[verifier::external_body]
    pub fn is_integer(&self) -> (r: bool) ensures r == is_int(self@) { unimplemented!() }
    #[verifier::external_body]
    pub fn numer(&self) -> (r: &BigInt) ensures r@ == q_numer(self@) { unimplemented!() }
    #[verifier::external_body]
    pub fn denom(&self) -> (r: &BigInt) ensures r@ == q_denom(self@) { unimplemented!() }
    /// panics on zero
    #[verifier::external_body]
    pub fn recip(self) -> (r: BigRational)
        requires self@ != 0real
        ensures r@ == 1real / self@
    { unimplemented!() }
    /// rounds half-way cases away from zero
    #[verifier::external_body]
    pub fn round(&self) -> (r: BigRational) ensures r@ == round_haz(self@) as real { unimplemented!() }
    /// rounds toward zero
    #[verifier::external_body]
    pub fn trunc(&self) -> (r: BigRational) ensures r@ == rtrunc(self@) as real { unimplemented!() }
    /// rounds toward minus infinity
    #[verifier::external_body]
    pub fn floor(&self) -> (r: BigRational) ensures r@ == self@.floor() as real { unimplemented!() }
    /// rounds toward plus infinity
    #[verifier::external_body]
    pub fn ceil(&self) -> (r: BigRational) ensures r@ == rceil(self@) as real { unimplemented!() }
    #[verifier::external_body]
    pub fn is_zero(&self) -> (r: bool) ensures r == (self@ == 0real) { unimplemented!() }
    #[verifier::external_body]
    pub fn is_one(&self) -> (r: bool) ensures r == (self@ == 1real) { unimplemented!() }
    #[verifier::external_body]
    pub fn is_negative(&self) -> (r: bool) ensures r == (self@ < 0real) { unimplemented!() }
    #[verifier::external_body]
    pub fn one() -> (r: BigRational) ensures r@ == 1real { unimplemented!() }
    #[verifier::external_body]
    pub fn zero() -> (r: BigRational) ensures r@ == 0real { unimplemented!() }
    /// num::ToPrimitive::to_i32 for Ratio: truncate toward zero, then fit
    #[verifier::external_body]
    pub fn to_i32(&self) -> (r: Option<i32>)
        ensures r == (if i32::MIN <= rtrunc(self@) <= i32::MAX { Some(rtrunc(self@) as i32) } else { None::<i32> })
    { unimplemented!() }
    /// num::traits::Pow<i32> for &BigRational: negative exponents take the reciprocal (panics on zero base)
    #[verifier::external_body]
    pub fn pow_i32(&self, expon: i32) -> (r: BigRational)
        requires !(self@ == 0real && expon < 0)
        ensures r@ == qpow(self@, expon as int)
    { unimplemented!() }
}

impl Clone for BigRational {
    #[verifier::external_body]
    fn clone(&self) -> (r: Self) ensures r@ == self@ { unimplemented!() }
}

// Trait-style entry points the real code spells as `One::one()`, `Zero::zero()`, `Pow::pow(..)`
pub struct One;
impl One { #[verifier::external_body] pub fn one() -> (r: BigRational) ensures r@ == 1real { unimplemented!() } }
pub struct Zero;
impl Zero { #[verifier::external_body] pub fn zero() -> (r: BigRational) ensures r@ == 0real { unimplemented!() } }
pub struct Pow;
impl Pow {
    #[verifier::external_body]
    pub fn pow(base: &BigRational, expon: i32) -> (r: BigRational)
        requires !(base@ == 0real && expon < 0)
        ensures r@ == qpow(base@, expon as int)
    { unimplemented!() }
}


// From<primitive> for BigInt (assumed): exact embedding
pub uninterp spec fn bigint_of(x: int) -> BigInt;
#[verifier::external_body]
pub broadcast proof fn axiom_bigint_of(x: int)
    ensures #[trigger] bigint_of(x)@ == x
{ }
impl From<u32> for BigInt {
    #[verifier::external_body]
    fn from(x: u32) -> (r: BigInt) ensures r == bigint_of(x as int) { unimplemented!() }
}
impl FromSpecImpl<u32> for BigInt {
    open spec fn obeys_from_spec() -> bool { true }
    open spec fn from_spec(x: u32) -> BigInt { bigint_of(x as int) }
}
impl From<i32> for BigInt {
    #[verifier::external_body]
    fn from(x: i32) -> (r: BigInt) ensures r == bigint_of(x as int) { unimplemented!() }
}
impl FromSpecImpl<i32> for BigInt {
    open spec fn obeys_from_spec() -> bool { true }
    open spec fn from_spec(x: i32) -> BigInt { bigint_of(x as int) }
}
impl From<u128> for BigInt {
    #[verifier::external_body]
    fn from(x: u128) -> (r: BigInt) ensures r == bigint_of(x as int) { unimplemented!() }
}
impl FromSpecImpl<u128> for BigInt {
    open spec fn obeys_from_spec() -> bool { true }
    open spec fn from_spec(x: u128) -> BigInt { bigint_of(x as int) }
}

// path aliases so that the real code's `num::BigRational::new(..)` etc. resolve to the shim
pub mod num {
    pub use super::{BigInt, BigRational, One, Zero, Pow, Sign};
}
