// ---------------------------------------------------------------------------------------------
// SHIM (assumed contract): query::Query as far as the NUMBER / PERCENTAGE arms of eval() use it: `source(span)` is the text of the
// query between the span's offsets (`&self.source[span.range()]`, str slicing is outside Verus).
#[verifier::external_body]
pub struct Query<'a> { _p: &'a u8 }
/// the bytes of the query text covered by a span
pub uninterp spec fn span_text(q: &Query<'_>, span: Span<u32>) -> Seq<u8>;
impl<'a> Query<'a> {
    #[verifier::external_body]
    pub fn source(&self, span: Span<u32>) -> (r: &'a str) ensures str_bytes(r) == span_text(self, span) { unimplemented!() }
}
