// SHIM (assumed): the child list of a syntree node as the WITH_UNIT arm of eval() walks it -- `children()` yields all children in
// order, `next()` the next child of any kind, `next_node()` the next child that is not a token (syntree: "advances past all
// non-node data").  `Children::rem()` (used by the contract of `eval::unit`) stays the view of the remaining NODE children.
impl<'a> Node<'a> {
    /// all children, tokens included, in order
    pub uninterp spec fn kids(&self) -> Seq<Node<'a>>;
    /// a token (leaf carrying text), as opposed to a node with children
    pub uninterp spec fn is_token(&self) -> bool;
    /// the NODE children as `Children::rem()` presents them (a function of the node)
    pub uninterp spec fn node_kids(&self) -> Seq<UNode>;
    #[verifier::external_body]
    pub fn children(&self) -> (r: Children<'a>) ensures r.all() == self.kids(), r.rem() == self.node_kids(), r.nodes_left() == self.node_seq() { unimplemented!() }
}
/// the first non-token among `s` and what follows it
pub open spec fn first_node<'a>(s: Seq<Node<'a>>) -> Option<(Node<'a>, Seq<Node<'a>>)>
    decreases s.len()
{
    if s.len() == 0 { None } else if !s[0].is_token() { Some((s[0], s.skip(1))) } else { first_node(s.skip(1)) }
}
impl<'a> Children<'a> {
    /// the remaining children of any kind
    pub uninterp spec fn all(&self) -> Seq<Node<'a>>;
    #[verifier::external_body]
    pub fn next(&mut self) -> (r: Option<Node<'a>>)
        ensures
            old(self).all().len() == 0 ==> r is None && final(self).all() == old(self).all(),
            old(self).all().len() > 0 ==> r == Some(old(self).all()[0]) && final(self).all() == old(self).all().skip(1),
    { unimplemented!() }
    #[verifier::external_body]
    pub fn next_any_node(&mut self) -> (r: Option<Node<'a>>)
        ensures
            first_node(old(self).all()) matches Some(p) ==> r == Some(p.0) && final(self).all() == p.1,
            first_node(old(self).all()) is None ==> r is None,
    { unimplemented!() }
}
/// `Children::skip_tokens()`: the iterator over the children that are not tokens
#[verifier::external_body]
pub struct SkipTokens<'a> { _p: &'a u8 }
impl<'a> Node<'a> {
    /// the children that are not tokens, in order
    pub uninterp spec fn node_seq(&self) -> Seq<Node<'a>>;
}
impl<'a> Children<'a> {
    /// the non-token children still to come
    pub uninterp spec fn nodes_left(&self) -> Seq<Node<'a>>;
    #[verifier::external_body]
    pub fn skip_tokens(self) -> (r: SkipTokens<'a>) ensures r.rem() == self.nodes_left() { unimplemented!() }
}
impl<'a> SkipTokens<'a> {
    pub uninterp spec fn rem(&self) -> Seq<Node<'a>>;
    #[verifier::external_body]
    pub fn next(&mut self) -> (r: Option<Node<'a>>)
        ensures
            old(self).rem().len() == 0 ==> r is None && final(self).rem() == old(self).rem(),
            old(self).rem().len() > 0 ==> r == Some(old(self).rem()[0]) && final(self).rem() == old(self).rem().skip(1),
    { unimplemented!() }
}
