#!/usr/bin/env python3
"""usage: manifest_set.py PROP CATEGORY TEXT [TECHNIQUE]  -- add/update a check entry, drop PROP from not_applicable, validate."""
import json, sys
import jsonschema
M = "/verif/MANIFEST.json"
m = json.load(open(M))
prop, cat, text = sys.argv[1:4]
tech = sys.argv[4] if len(sys.argv) > 4 else "contract-based deductive verification (Verus) of functions extracted from /repo on every run; bounded runtime stand-in only for the parts named in the level text"
note = m["checks"][0]["level_note"]
e = dict(property_id=prop, quick_cmd=f"./check {prop} --tier quick", thorough_cmd=f"./check {prop} --tier thorough", evidence_file=f"/verif/evidence/{prop}.json",
         replay_cmd_template=f"./check {prop} --replay {{path}}", engine="vprove", level_claimed=dict(category=cat, text=text, design_ref=f"DESIGN.md §6 {prop}"), level_note=note, technique=tech)
m["checks"] = [c for c in m["checks"] if c["property_id"] != prop] + [e]
m["checks"].sort(key=lambda c: c["property_id"])
m["not_applicable"] = [n for n in m["not_applicable"] if n["property_id"] != prop]
for eng in m["engines"]:
    if prop not in eng["serves_properties"]:
        eng["serves_properties"].append(prop); eng["serves_properties"].sort()
jsonschema.validate(m, json.load(open("/root/.vp/MANIFEST.schema.json")))
json.dump(m, open(M, "w"), indent=1)
print("ok", [c["property_id"] for c in m["checks"]])
