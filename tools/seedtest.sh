#!/bin/sh
# usage: seedtest.sh <seed-id> <PROP>...   -- apply the seeded change to /repo, run the quick checks, undo it straight afterwards
id=$1; shift
d=/verif/seeded/$id
git -C /repo diff --quiet || { echo "/repo not clean"; exit 3; }
git -C /repo apply $d/patch.diff || exit 3
trap 'git -C /repo checkout -- .' EXIT INT TERM
for p in "$@"; do
  echo "=== $id : check $p"
  /verif/check $p --tier ${TIER:-quick} 2>&1 | grep -E "^(VIOLATION|KNOWN-FINDING|UNDECIDED|check )" | cut -c1-400
done
