#!/usr/bin/env python3
"""usage: q.py "<query>" ...  -- evaluate queries on the real library through the E2 harness"""
import sys, json
sys.path.insert(0, '/verif')
from vprove.rac import Rac
r = Rac('/repo')
for q in sys.argv[1:]:
    a = r.query(q)
    outs = []
    for x in a.get('results', [a]):
        if 'ok' in x:
            o = x['ok']; outs.append(f"{o['value']['n']}/{o['value']['d']} {o['unit_str']}")
        else:
            outs.append(json.dumps(x, ensure_ascii=False)[:200])
    print(q, '=>', ' | '.join(outs))
r.close()
