#!/bin/sh
# usage: run_all.sh [quick|thorough]  -- run every registered check on /repo as it is (must be clean) and print one line per check
tier=${1:-quick}
git -C /repo diff --quiet || { echo "/repo has uncommitted changes: evidence must come from the unchanged tree"; exit 3; }
cd /verif
for p in $(python3 -c "import json; print(' '.join(c['property_id'] for c in json.load(open('MANIFEST.json'))['checks']))"); do
  ./check $p --tier $tier 2>&1 | grep -E "^(check |VIOLATION|UNDECIDED)" | cut -c1-220
done
