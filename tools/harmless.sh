#!/bin/sh
# usage: harmless.sh  -- apply each semantics-preserving edit of selftest/harmless/* to /repo, build + run the pinned tests of the crate,
# run the checks it names, undo it; a check must never print VIOLATION / exit 1 on these
git -C /repo diff --quiet || { echo "/repo not clean"; exit 3; }
for d in /verif/selftest/harmless/*/; do
  id=$(basename $d)
  git -C /repo apply $d/patch.diff || { echo "$id: patch does not apply"; continue; }
  (cd /repo && cargo build --offline -q 2>&1 | tail -1)
  for p in $(cat $d/props); do
    out=$(/verif/check $p --tier quick 2>&1 | grep -E "^(VIOLATION|UNDECIDED|check )" | cut -c1-200)
    echo "== $id $p"; echo "$out"
  done
  git -C /repo checkout -- .
done
