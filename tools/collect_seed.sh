#!/bin/sh
# usage: collect_seed.sh <worktree> <seed-id>   -- copy patch/demo/report of a seeding agent into /verif/seeded/<seed-id>/
set -e
wt=$1; id=$2; d=/verif/seeded/$id
mkdir -p $d
git -C $wt diff -- src > $d/patch.diff
cp $wt/tests/seed_demo.rs $d/seed_demo.rs 2>/dev/null || true
cp $wt/SEED_REPORT.md $d/SEED_REPORT.md 2>/dev/null || true
wc -l $d/patch.diff
