#!/bin/sh
# usage: confirm_seed.sh <seed-id> [worktree-to-reuse]
# Confirms in a scratch worktree: demo passes without the change; with it the crate builds, the pinned suite passes, the demo fails.
id=$1; d=/verif/seeded/$id; wt=${2:-/tmp/confirm-$id}
own=0
if [ ! -d "$wt" ]; then git -C /repo worktree add -q --detach $wt HEAD && cp -r /repo/target $wt/target; own=1; fi
cd $wt && git checkout -q -- . && rm -f tests/seed_demo.rs
cp $d/seed_demo.rs tests/seed_demo.rs
export CARGO_NET_OFFLINE=true
cargo test --offline --test seed_demo >$d/.log_demo_without 2>&1; r_without=$?
git apply $d/patch.diff || { echo "patch does not apply"; exit 3; }
cargo test --offline --test seed_demo >$d/.log_demo_with 2>&1; r_with=$?
mv tests/seed_demo.rs /tmp/.seed_demo_$id.rs
cargo test --workspace --no-fail-fast --offline >$d/.log_suite_with 2>&1; r_suite=$?
passed=$(grep -h "^test result" $d/.log_suite_with | awk '{s+=$4} END {print s}')
failed=$(grep -h "^test result" $d/.log_suite_with | awk '{s+=$6} END {print s}')
warn=$(grep -c "^warning" $d/.log_suite_with)
rm -f /tmp/.seed_demo_$id.rs
git checkout -q -- .
echo "$id demo_without_exit=$r_without demo_with_exit=$r_with suite_with_exit=$r_suite suite_passed=$passed suite_failed=$failed warnings=$warn"
echo "{\"demo_without_change_exit\": $r_without, \"demo_with_change_exit\": $r_with, \"suite_with_change_exit\": $r_suite, \"suite_passed\": $passed, \"suite_failed\": $failed}" > $d/.confirm.json
rm -f $d/.log_demo_without $d/.log_demo_with $d/.log_suite_with
if [ $own = 1 ]; then cd /; git -C /repo worktree remove --force $wt; fi
