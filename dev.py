#!/usr/bin/env python3
"""developer helper: run one unit and print the classification"""
import sys, json
sys.path.insert(0,'/verif')
from vprove.run import run_unit
unit=sys.argv[1]
repo=sys.argv[2] if len(sys.argv)>2 and not sys.argv[2].startswith('-') else '/repo'
canary='--canary' in sys.argv
gen,res=run_unit(unit,repo,canary=canary)
print(res['status'], 'verified=',res['verified'], 'errors=',res['errors'], 'wall=%.1f'%res['wall_s'], 'solver=%.1f'%res['solver_time_s'])
for f in res['failures']:
    print('FAIL', f['obligation'], '|', f['kind'], f['tags'], f['site'])
    if '-v' in sys.argv: print(f['rendered'])
for u in res['undecided']:
    print('UNDEC', u['reason'], u['message'][:300]); print(u['rendered'][:2500])
slow=[f for f in res['functions'] if f['time_s']>2]
for f in slow: print('SLOW', f)
