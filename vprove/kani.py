"""Kani side of E1: function contracts / loop-free full-domain harnesses on a scratch copy of /repo's working tree.

The real source files are annotated in place (in the scratch copy only): a `#[cfg_attr(kani, kani::ensures(..))]` attribute is put
on the function under contract and a `#[cfg(kani)]` harness module is appended to the same file.  Nothing else is changed, so the
code CBMC checks is the code that runs.  The scratch copy is removed when the run ends; the dependency objects live in
/verif/.build/kani-target and are reused between runs (the `anything` crate itself is rebuilt every time)."""

import json
import os
import re
import shutil
import subprocess
import time

from .gen import VERIF
from .extract import LostAnchor

KTARGET = os.path.join(VERIF, ".build", "kani-target")


def scratch_copy(repo):
    dst = f"/var/tmp/anything-verif.{os.getpid()}.kani"
    if os.path.exists(dst):
        shutil.rmtree(dst)
    subprocess.run(["rsync", "-a", "--exclude", "target", "--exclude", ".git", repo.rstrip("/") + "/", dst + "/"], check=True)
    return dst


def ids_lock():
    out = {}
    for line in open(os.path.join(VERIF, "contracts", "ids.lock"), encoding="utf-8"):
        line = line.strip()
        if line and not line.startswith("#"):
            k, v = line.split("=")
            out[k.strip()] = int(v)
    return out


def annotate_ids(scratch, repo):
    """-> (harness names, obligations description list, statics)"""
    from .tables import collect
    units, _ = collect(repo)
    statics = []
    for u in units:
        mod = os.path.splitext(os.path.basename(u["file"]))[0]
        statics.append((u["name"], f"units::{u['name']}" if mod == "mod" else f"units::{mod}::{u['name']}"))
    p = os.path.join(scratch, "src", "generated", "ids.rs")
    s = open(p, encoding="utf-8").read()
    sig = "pub fn id_to_derived(id: u32) -> Option<Derived> {"
    if s.count(sig) != 1:
        raise LostAnchor("src/generated/ids.rs: `pub fn id_to_derived(id: u32) -> Option<Derived>` not found")
    s = s.replace(sig, "#[cfg_attr(kani, kani::ensures(|r: &Option<Derived>| match r { Some(d) => d.id == id, None => true }))] // [ids.id_to_derived.same_id]\n" + sig, 1)
    lock = ids_lock()
    lines = ["", "#[cfg(kani)]", "mod verif_ids {", "    use super::*;",
             "    /// contract of id_to_derived, all 2^32 identifiers (loop-free, full domain: a proof, not a bounded run)",
             "    #[kani::proof_for_contract(id_to_derived)]", "    fn ids_decode_to_their_own_id() {", "        let id: u32 = kani::any();", "        id_to_derived(id);", "    }",
             "    /// every derived-unit static decodes, through its own id, to itself (same vtable)",
             "    #[kani::proof]", "    fn statics_decode_to_themselves() {"]
    for name, path in statics:
        lines.append(f"        assert!(matches!(id_to_derived({path}.id), Some(x) if core::ptr::eq(x.vtable, {path}.vtable)), \"[ids.static.{name}] decodes to itself\");")
    lines += ["    }", "    /// identifiers are the pinned ones (contracts/ids.lock): a unit expression written by one build reads identically in the next",
              "    #[kani::proof]", "    fn ids_are_the_pinned_ones() {"]
    for name, path in statics:
        if name not in lock:
            lines.append(f"        assert!(false, \"[ids.pinned.{name}] unit has no pinned identifier\");")
        else:
            lines.append(f"        assert!({path}.id == {lock[name]}u32, \"[ids.pinned.{name}] identifier changed\");")
    lines += ["    }", "    /// vacuity canary: must FAIL (the Some branch of id_to_derived is reachable from a symbolic id)",
              "    #[kani::proof]", "    fn ids_canary_must_fail() {", "        let id: u32 = kani::any();", "        assert!(id_to_derived(id).is_none(), \"[ids.canary]\");", "    }", "}", ""]
    open(p, "w", encoding="utf-8").write(s + "\n".join(lines))
    missing = sorted(set(lock) - {n for n, _ in statics})
    return ["ids_decode_to_their_own_id", "statics_decode_to_themselves", "ids_are_the_pinned_ones", "ids_canary_must_fail"], statics, missing


_HARNESS = re.compile(r"^Checking harness ([\w:]+)\.\.\.", re.M)


def run_kani(scratch, harnesses, extra=(), timeout=3000):
    env = dict(os.environ, CARGO_NET_OFFLINE="true", CARGO_TARGET_DIR=KTARGET)
    cmd = ["cargo", "kani", "-Z", "function-contracts"] + list(extra)
    for h in harnesses:
        cmd += ["--harness", h]
    t0 = time.time()
    try:
        p = subprocess.run(cmd, cwd=scratch, env=env, capture_output=True, text=True, timeout=timeout)
        out, rc = p.stdout + "\n" + p.stderr, p.returncode
    except subprocess.TimeoutExpired as e:
        out, rc = "TIMEOUT", -9
    wall = time.time() - t0
    res = {}
    parts = _HARNESS.split(out)
    # parts: [pre, name1, text1, name2, text2, ...]
    for i in range(1, len(parts), 2):
        name = parts[i].split("::")[-1]
        text = parts[i + 1]
        m = re.search(r"\*\* (\d+) of (\d+) failed", text)
        ok = "VERIFICATION:- SUCCESSFUL" in text
        failed = []
        for fm in re.finditer(r"Failed Checks: (.*)", text):
            failed.append(fm.group(1).strip())
        concrete = [int(x) for x in re.findall(r"// (\d+)\n\s*vec!\[", text)]
        vt = re.search(r"Verification Time: ([\d.]+)s", text)
        res[name] = dict(success=ok, checks=int(m.group(2)) if m else 0, failed_checks=int(m.group(1)) if m else None, failed=failed,
                         time_s=float(vt.group(1)) if vt else None, concrete=concrete, unwinding_failure="unwinding assertion" in text and not ok)
    return dict(cmd=" ".join(cmd), rc=rc, wall_s=wall, harnesses=res, raw_tail=out[-3000:])


def run_ids(repo):
    """-> dict(status, obligations, discharged, failures[], undecided[], ...)"""
    scratch = None
    try:
        scratch = scratch_copy(repo)
        try:
            harnesses, statics, missing = annotate_ids(scratch, repo)
        except LostAnchor as e:
            return dict(status="undecided", undecided=[dict(reason="lost-anchor", message=str(e))], failures=[], obligations=0, discharged=0, wall_s=0, harnesses={})
        r = run_kani(scratch, harnesses)
        if any((not hr["success"]) and h != "ids_canary_must_fail" for h, hr in r["harnesses"].items()):
            # counterexample extraction only when something failed (concrete playback slows CBMC down several times)
            bad = [h for h, hr in r["harnesses"].items() if not hr["success"] and h != "ids_canary_must_fail"]
            r2 = run_kani(scratch, bad, extra=["-Z", "concrete-playback", "--concrete-playback=print"])
            for h, hr in r2["harnesses"].items():
                if h in r["harnesses"]:
                    r["harnesses"][h]["concrete"] = hr.get("concrete", [])
            r["wall_s"] += r2["wall_s"]
        failures, undecided = [], []
        obligations = discharged = 0
        for h in harnesses:
            hr = r["harnesses"].get(h)
            if hr is None:
                undecided.append(dict(reason="tooling", message=f"kani produced no result for harness {h}: {r['raw_tail'][-600:]}"))
                continue
            if h == "ids_canary_must_fail":
                if hr["success"] or not hr["failed"]:
                    undecided.append(dict(reason="vacuous", message="Kani canary harness did not fail: the harnesses are vacuous"))
                continue
            n = 1 if h == "ids_decode_to_their_own_id" else len(statics)
            obligations += n
            if hr["success"]:
                discharged += n
            elif hr["failed"]:
                discharged += max(0, n - len(hr["failed"]))
                for f in hr["failed"]:
                    cid = re.search(r"\[([\w.]+)\]", f)
                    ob = f"src/generated/ids.rs :: fn id_to_derived :: [{cid.group(1) if cid else 'ids.id_to_derived.same_id'}]"
                    if not any(x["obligation"] == ob for x in failures):
                        failures.append(dict(obligation=ob, harness=h, detail=f, counterexample_ids=hr.get("concrete", [])[:4]))
            else:
                undecided.append(dict(reason="tooling", message=f"harness {h} neither succeeded nor reported a failed check: {r['raw_tail'][-600:]}"))
        for name in missing:
            failures.append(dict(obligation=f"src/units :: [ids.pinned.{name}]", harness="(extraction)", detail=f"pinned unit {name} no longer exists as a Derived static"))
        status = "undecided" if undecided else ("failed" if failures else "verified")
        return dict(status=status, failures=failures, undecided=undecided, obligations=obligations, discharged=discharged, wall_s=r["wall_s"],
                    harnesses=r["harnesses"], cmd=r["cmd"], statics=len(statics))
    finally:
        if scratch and os.path.exists(scratch):
            shutil.rmtree(scratch, ignore_errors=True)


LEAVES_HARNESS = r"""
#[cfg(kani)]
mod verif_leaves {
    use super::*;
    const N: usize = @N@;

    /// independent UTF-8 decoder (RFC 3629 table): (scalar value, width) of the character starting at b[i]; the input is known to be valid UTF-8
    fn decode(b: &[u8], i: usize) -> (u32, usize) {
        let b0 = b[i] as u32;
        if b0 < 0x80 {
            (b0, 1)
        } else if b0 < 0xE0 {
            (((b0 & 0x1F) << 6) | (b[i + 1] as u32 & 0x3F), 2)
        } else if b0 < 0xF0 {
            (((b0 & 0x0F) << 12) | ((b[i + 1] as u32 & 0x3F) << 6) | (b[i + 2] as u32 & 0x3F), 3)
        } else {
            (((b0 & 0x07) << 18) | ((b[i + 1] as u32 & 0x3F) << 12) | ((b[i + 2] as u32 & 0x3F) << 6) | (b[i + 3] as u32 & 0x3F), 4)
        }
    }

    /// the assumed contracts of peek / peek2 / step in contracts/lexer.vc, for every valid UTF-8 string of <= N bytes at every character boundary
    #[kani::proof]
    #[kani::unwind(@U@)]
    fn leaves_contract() {
        let buf: [u8; N] = kani::any();
        let len: usize = kani::any();
        kani::assume(len <= N);
        let s = match std::str::from_utf8(&buf[..len]) {
            Ok(s) => s,
            Err(_) => return,
        };
        let pos: usize = kani::any();
        kani::assume(pos <= len && s.is_char_boundary(pos));
        let escape: bool = kani::any();
        let mut lx = Lexer { source: s, pos, escape };
        if pos == len {
            assert!(lx.peek().is_none(), "[lexer.peek.def] end of input");
            assert!(lx.peek2().is_none(), "[lexer.peek2.def] end of input");
            lx.step();
            assert!(lx.pos == pos && lx.escape == escape, "[lexer.step.def] no-op at the end");
        } else {
            let (c0, w0) = decode(&buf, pos);
            assert!(lx.peek().map(|c| c as u32) == Some(c0), "[lexer.peek.def] first character");
            let second = if pos + w0 < len { decode(&buf, pos + w0).0 } else { 0 };
            let p2 = lx.peek2();
            assert!(p2.map(|(a, b)| (a as u32, b as u32)) == Some((c0, second)), "[lexer.peek2.def] first two characters");
            assert!(lx.pos == pos, "[lexer.peek2.def] peek2 does not move");
            lx.step();
            assert!(lx.pos == pos + w0 && lx.escape == escape, "[lexer.step.def] advances by the width of the first character");
            assert!(w0 >= 1 && w0 <= 4 && lx.pos <= len && s.is_char_boundary(lx.pos), "[lexer.step.def] lands on a character boundary inside the input");
        }
    }

    /// vacuity canary: must FAIL (a non-ASCII first character is reachable)
    #[kani::proof]
    #[kani::unwind(@U@)]
    fn leaves_canary_must_fail() {
        let buf: [u8; N] = kani::any();
        let s = match std::str::from_utf8(&buf[..]) {
            Ok(s) => s,
            Err(_) => return,
        };
        let lx = Lexer { source: s, pos: 0, escape: false };
        assert!(lx.peek().map(|c| (c as u32) < 0x80).unwrap_or(true), "[leaves.canary]");
    }
}
"""


def run_leaves(repo, nbytes=4):
    """bounded Kani check of the three trusted str leaves of the lexer (labelled bounded: strings of <= nbytes bytes)"""
    scratch = None
    try:
        scratch = scratch_copy(repo)
        p = os.path.join(scratch, "src", "syntax", "lexer.rs")
        s = open(p, encoding="utf-8").read()
        for sig in ("fn peek(&self) -> Option<char>", "fn peek2(&mut self) -> Option<(char, char)>", "fn step(&mut self)"):
            if s.count(sig) != 1:
                return dict(status="undecided", undecided=[dict(reason="lost-anchor", message=f"src/syntax/lexer.rs: `{sig}` not found")], failures=[], obligations=0, discharged=0, wall_s=0, harnesses={})
        open(p, "w", encoding="utf-8").write(s + LEAVES_HARNESS.replace("@N@", str(nbytes)).replace("@U@", str(nbytes + 2)))
        r = run_kani(scratch, ["leaves_contract", "leaves_canary_must_fail"])
        failures, undecided = [], []
        hr = r["harnesses"].get("leaves_contract")
        cn = r["harnesses"].get("leaves_canary_must_fail")
        obligations, discharged = 3, 0
        if hr is None or cn is None:
            undecided.append(dict(reason="tooling", message=f"kani produced no result: {r['raw_tail'][-600:]}"))
        else:
            if cn["success"] or not cn["failed"]:
                undecided.append(dict(reason="vacuous", message="Kani canary harness did not fail"))
            if hr["success"]:
                discharged = 3
            elif hr["failed"]:
                cids = set()
                for f in hr["failed"]:
                    m = re.search(r"\[([\w.]+)\]", f)
                    cid = m.group(1) if m else "lexer.leaves"
                    if cid not in cids:
                        cids.add(cid)
                        failures.append(dict(obligation=f"src/syntax/lexer.rs :: impl<'a> Lexer<'a> :: [{cid}] (Kani, strings <= {nbytes} bytes)", harness="leaves_contract", detail=f))
                discharged = max(0, 3 - len(cids))
            else:
                undecided.append(dict(reason="tooling", message=f"harness neither succeeded nor reported a failed check (unwinding?): {r['raw_tail'][-600:]}"))
        status = "undecided" if undecided else ("failed" if failures else "verified")
        return dict(status=status, failures=failures, undecided=undecided, obligations=obligations, discharged=discharged, wall_s=r["wall_s"], harnesses=r["harnesses"], cmd=r["cmd"], nbytes=nbytes)
    finally:
        if scratch and os.path.exists(scratch):
            shutil.rmtree(scratch, ignore_errors=True)
