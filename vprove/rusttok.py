"""A small lossless Rust tokenizer: enough to find items, match braces and
anchor insertions by token sequence.  It does not parse expressions.

Token kinds: ws, comment, doc (/// //! /** */ comments), ident, lifetime,
str, char, num, punct.
Every character of the input belongs to exactly one token (lossless)."""

import re
from dataclasses import dataclass


@dataclass
class Tok:
    kind: str
    text: str
    start: int
    end: int

    def __repr__(self):
        return f"{self.kind}:{self.text!r}@{self.start}"


_IDENT_START = re.compile(r"[A-Za-z_\u0080-\U0010ffff]")
_IDENT = re.compile(r"[A-Za-z_\u0080-\U0010ffff][A-Za-z0-9_\u0080-\U0010ffff]*")
_NUM = re.compile(r"[0-9][0-9A-Za-z_]*(\.[0-9][0-9A-Za-z_]*)?")
_WS = re.compile(r"\s+")


class TokenizeError(Exception):
    pass


def tokenize(src: str):
    toks = []
    i = 0
    n = len(src)
    while i < n:
        c = src[i]
        m = _WS.match(src, i)
        if m:
            toks.append(Tok("ws", m.group(0), i, m.end()))
            i = m.end()
            continue
        if src.startswith("//", i):
            j = src.find("\n", i)
            if j < 0:
                j = n
            text = src[i:j]
            kind = "doc" if (text.startswith("///") and not text.startswith("////")) or text.startswith("//!") else "comment"
            toks.append(Tok(kind, text, i, j))
            i = j
            continue
        if src.startswith("/*", i):
            depth = 1
            j = i + 2
            while j < n and depth > 0:
                if src.startswith("/*", j):
                    depth += 1
                    j += 2
                elif src.startswith("*/", j):
                    depth -= 1
                    j += 2
                else:
                    j += 1
            if depth != 0:
                raise TokenizeError("unterminated block comment")
            text = src[i:j]
            kind = "doc" if (text.startswith("/**") and not text.startswith("/***") and text != "/**/") or text.startswith("/*!") else "comment"
            toks.append(Tok(kind, text, i, j))
            i = j
            continue
        # raw strings / byte strings
        m = re.match(r"(b?r)(#*)\"", src[i:i + 40])
        if m and (i == 0 or not (src[i - 1].isalnum() or src[i - 1] == "_")):
            hashes = m.group(2)
            close = '"' + hashes
            j = src.find(close, i + len(m.group(0)))
            if j < 0:
                raise TokenizeError("unterminated raw string")
            j += len(close)
            toks.append(Tok("str", src[i:j], i, j))
            i = j
            continue
        if c == '"' or (c == "b" and src.startswith('b"', i)):
            j = i + (2 if c == "b" else 1)
            while j < n and src[j] != '"':
                if src[j] == "\\":
                    j += 2
                else:
                    j += 1
            if j >= n:
                raise TokenizeError("unterminated string")
            j += 1
            toks.append(Tok("str", src[i:j], i, j))
            i = j
            continue
        if c == "'" or (c == "b" and src.startswith("b'", i)):
            k = i + (1 if c == "b" else 0)
            # char literal or lifetime
            if k + 1 < n and src[k + 1] == "\\":
                # escaped char: skip the escaped character, then find the closing quote
                j = src.find("'", k + 3)
                if j < 0:
                    raise TokenizeError("unterminated char")
                j += 1
                toks.append(Tok("char", src[i:j], i, j))
                i = j
                continue
            if k + 2 < n and src[k + 2] == "'":
                j = k + 3
                toks.append(Tok("char", src[i:j], i, j))
                i = j
                continue
            m = _IDENT.match(src, k + 1)
            if m and c == "'":
                toks.append(Tok("lifetime", src[i:m.end()], i, m.end()))
                i = m.end()
                continue
            raise TokenizeError(f"bad quote at {i}: {src[i:i+10]!r}")
        m = _NUM.match(src, i)
        if m:
            # avoid swallowing `1..2` / `0.method`
            text = m.group(0)
            if m.group(1) is None and src.startswith(".", m.end()) and not src.startswith("..", m.end()):
                # `1.` followed by non-digit: keep just the integer part
                pass
            toks.append(Tok("num", text, i, i + len(text)))
            i += len(text)
            continue
        m = _IDENT.match(src, i)
        if m:
            toks.append(Tok("ident", m.group(0), i, m.end()))
            i = m.end()
            continue
        # punctuation: single characters (multi-char operators are sequences of puncts)
        toks.append(Tok("punct", c, i, i + 1))
        i += 1
    return toks


TRIVIA = ("ws", "comment", "doc")


def significant(toks):
    """Indices of non-trivia tokens."""
    return [k for k, t in enumerate(toks) if t.kind not in TRIVIA]


OPEN = {"(": ")", "[": "]", "{": "}"}
CLOSE = {")": "(", "]": "[", "}": "{"}


def match_close(toks, k):
    """toks[k] is an opening delimiter; return index of its matching closer."""
    assert toks[k].kind == "punct" and toks[k].text in OPEN, toks[k]
    depth = 0
    for j in range(k, len(toks)):
        t = toks[j]
        if t.kind != "punct":
            continue
        if t.text in OPEN:
            depth += 1
        elif t.text in CLOSE:
            depth -= 1
            if depth == 0:
                return j
    raise TokenizeError("unbalanced delimiters")


def norm(text: str):
    """Token texts of `text` without trivia (for whitespace-insensitive matching)."""
    return [t.text for t in tokenize(text) if t.kind not in TRIVIA]
