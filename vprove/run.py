"""Run Verus on a generated unit and classify every diagnostic.

Result of a unit run (dict):
  status: "verified" | "failed" | "undecided"
  failures: [ {obligation, kind, message, item, clause, tags, props, site, rendered} ]   (verification failures)
  undecided: [ {reason, message, rendered} ]
  functions: [ {function, success, time_s, rlimit} ]
  verified, errors, solver_time_s, wall_s
"""

import json
import os
import subprocess
import time

from .gen import generate, Generated, VERIF, TemplateError
from .extract import LostAnchor

VERIFICATION_MSGS = (
    "postcondition not satisfied",
    "precondition not satisfied",
    "invariant not satisfied",
    "assertion failed",
    "possible arithmetic underflow/overflow",
    "possible division by zero",
    "decreases not satisfied",
    "loop ensures not satisfied",
    "loop invariant not satisfied",
    "could not prove termination",
    "possible bit shift underflow/overflow",
    "unable to prove assertion",
    "assertion not satisfied",
    "possible missing case",
    "index out of bounds",
    "failed this",
    "constructed value may fail to meet its declared type invariant",
    "value may be out of range of the target type",
    "recursive call may not terminate",
    "may be out of range",
)
RLIMIT_MSGS = ("Resource limit (rlimit) exceeded", "rlimit exceeded", "timed out", "canceled")

BUILD = os.path.join(VERIF, "build")


def _classify_message(msg):
    low = msg.lower()
    for m in RLIMIT_MSGS:
        if m.lower() in low:
            return "rlimit"
    for m in VERIFICATION_MSGS:
        if m in low:
            return "verification"
    return "tooling"


def run_verus(path, rlimit=None, extra=None, threads=None, timeout=420):
    # -V spinoff-all: every function is checked in its own solver instance, so a verdict does not depend on which other
    # functions happen to be in the unit (stability against unrelated edits)
    cmd = ["verus", path, "--output-json", "--time", "--multiple-errors", "20", "--error-format=json", "-V", "spinoff-all"]
    if rlimit:
        cmd += ["--rlimit", str(rlimit)]
    if threads:
        cmd += ["--num-threads", str(threads)]
    if extra:
        cmd += extra
    t0 = time.time()
    env = dict(os.environ)
    try:
        p = subprocess.run(cmd, capture_output=True, text=True, cwd=os.path.dirname(path), timeout=timeout, env=env)
        out, err, rc = p.stdout, p.stderr, p.returncode
    except subprocess.TimeoutExpired as e:
        out, err, rc = (e.stdout or b"").decode() if isinstance(e.stdout, bytes) else (e.stdout or ""), "TIMEOUT", -9
    wall = time.time() - t0
    return cmd, out, err, rc, wall


def parse_outputs(out, err):
    result = None
    try:
        start = out.index("{")
        result = json.loads(out[start:])
    except Exception:
        result = None
    diags = []
    other = []
    for line in err.splitlines():
        line = line.strip()
        if not line:
            continue
        if line.startswith("{"):
            try:
                d = json.loads(line)
                diags.append(d)
                continue
            except Exception:
                pass
        other.append(line)
    return result, diags, other


def classify(gen: Generated, result, diags, other, rc):
    failures = []
    undecided = []
    seen = set()
    for d in diags:
        level = d.get("level")
        msg = d.get("message", "")
        if level not in ("error",):
            continue
        if msg.startswith("aborting due to"):
            continue
        cls = _classify_message(msg)
        spans = d.get("spans", [])
        origins = []
        prim_origin = None
        for sp in spans:
            for ln in range(sp["line_start"], sp["line_start"] + 1):
                if 1 <= ln <= len(gen.line_origins):
                    for o in gen.line_origins[ln - 1]:
                        origins.append((o, sp.get("is_primary", False), sp.get("label")))
                        if sp.get("is_primary") and prim_origin is None:
                            prim_origin = o
        if cls == "tooling":
            undecided.append(dict(reason="tooling", message=msg, rendered=d.get("rendered", "")[:4000]))
            continue
        if cls == "rlimit":
            item = None
            for o, _, _ in origins:
                if o[0] in ("code", "clause", "ghost", "canary"):
                    item = o[3] if o[0] == "code" else o[1]
            undecided.append(dict(reason="rlimit", message=msg, item=item, rendered=d.get("rendered", "")[:4000]))
            continue
        # verification failure
        clause = None
        item = None
        site = None
        canary = False
        for o, prim, label in origins:
            if o[0] == "clause" and clause is None:
                clause = o
            if o[0] == "canary":
                canary = True
        for o, prim, label in origins:
            if o[0] == "code" and prim:
                item = o[3]
                site = f"{o[1]}:{o[2]}"
        if item is None:
            for o, prim, label in origins:
                if o[0] == "code":
                    item = o[3]
                    site = f"{o[1]}:{o[2]}"
                    break
        if item is None:
            for o, prim, label in origins:
                if o[0] in ("ghost", "clause", "canary"):
                    item = o[1]
                    break
        if site is None:
            for o, prim, label in origins:
                if o[0] == "ghost":
                    site = f"proof hint at `{o[2]}`"
                    break
        if item is None and clause is None:
            # failure inside template text (a lemma / spec of ours): machinery problem, not a violation
            undecided.append(dict(reason="template-proof", message=msg, rendered=d.get("rendered", "")[:4000]))
            continue
        tags = []
        if clause is not None:
            tags = list(clause[4])
        kind = msg
        if canary and "assertion failed" in msg:
            failures.append(dict(obligation=f"{item} :: canary", kind="canary", message=msg, item=item, clause=None, tags=[], site=site, canary=True, rendered=d.get("rendered", "")[:3000]))
            continue
        if clause is not None:
            ob = f"{clause[1]} :: [{clause[2]}]"
            # a precondition failure is attributed to the calling item as well
            if "precondition" in msg and item and item != clause[1]:
                ob = f"{item} :: call violates [{clause[2]}] of {clause[1]}"
        else:
            ob = f"{item} :: {msg} @ {site}"
        key = (ob, site)
        if key in seen:
            continue
        seen.add(key)
        failures.append(dict(obligation=ob, kind=kind, message=msg, item=item or (clause[1] if clause else None),
                             clause=clause[2] if clause else None, clause_item=clause[1] if clause else None,
                             tags=tags, site=site, canary=False,
                             rendered=d.get("rendered", "")[:3000]))
    functions = []
    verified = errors = None
    solver = 0.0
    if result:
        vr = result.get("verification-results", {})
        verified, errors = vr.get("verified"), vr.get("errors")
        smt = result.get("times-ms", {}).get("smt", {})
        for mod in smt.get("smt-run-module-times", []):
            for f in mod.get("function-breakdown", []):
                functions.append(dict(function=f["function"], success=f["success"], time_s=f["time-micros"] / 1e6, rlimit=f.get("rlimit")))
        solver = (smt.get("smt-run", 0) + smt.get("smt-init", 0)) / 1000.0
        if vr.get("encountered-vir-error"):
            undecided.append(dict(reason="tooling", message="verus reported a VIR error", rendered="\n".join(other)[:3000]))
    else:
        undecided.append(dict(reason="tooling", message="no JSON result from verus (crash or compile error)", rendered="\n".join(other)[:3000]))
    for line in other:
        if "internal error" in line.lower() or "panicked" in line.lower():
            undecided.append(dict(reason="tooling", message=line[:300], rendered=line[:3000]))
    return dict(failures=failures, undecided=undecided, functions=functions, verified=verified, errors=errors, solver_time_s=solver)


def run_unit(unit, repo, canary=False, rlimit=None, tag=None, threads=None, extra=None):
    """Generate + verify one unit.  Returns (gen|None, res dict)."""
    tmpl = os.path.join(VERIF, "units", unit + ".vt")
    os.makedirs(BUILD, exist_ok=True)
    name = unit + (".canary" if canary else "") + (f".{tag}" if tag else "")
    path = os.path.join(BUILD, name.replace(".", "_") + ".rs")
    try:
        gen = generate(tmpl, repo, canary=canary)
    except LostAnchor as e:
        return None, dict(status="undecided", failures=[], undecided=[dict(reason="lost-anchor", message=str(e), rendered="")],
                          functions=[], verified=0, errors=0, solver_time_s=0, wall_s=0, cmd="", path=path)
    with open(path, "w", encoding="utf-8") as f:
        f.write(gen.text)
    if rlimit is None:
        # a unit may ask for a larger resource limit in its template header: `// rlimit: N`
        import re as _re
        m = _re.search(r"^// rlimit: (\d+)", open(tmpl, encoding="utf-8").read(), _re.M)
        if m:
            rlimit = int(m.group(1))
    cmd, out, err, rc, wall = run_verus(path, rlimit=rlimit, threads=threads, extra=extra)
    result, diags, other = parse_outputs(out, err)
    res = classify(gen, result, diags, other, rc)
    res["wall_s"] = wall
    res["cmd"] = " ".join(cmd)
    res["path"] = path
    res["rc"] = rc
    if err == "TIMEOUT":
        # every unit verifies in well under a minute; a run that does not come back in 7 minutes is a tool hang, not a solver limit
        res["undecided"] = [dict(reason="timeout", message="verus wall-clock timeout (420 s)", rendered="")]
    if res["undecided"]:
        res["status"] = "undecided"
    elif res["failures"]:
        res["status"] = "failed"
    elif rc == 0 and (res["errors"] == 0):
        res["status"] = "verified"
    else:
        res["status"] = "undecided"
        res["undecided"].append(dict(reason="tooling", message=f"verus rc={rc} without classified diagnostics", rendered=(err or "")[:3000]))
    return gen, res
