"""Item finder over the token stream of a Rust source file.

Selectors are `::`-separated parts, e.g.
    impl Powers :: fn insert
    impl ops::Add<Rational> for Rational
    fn mul :: fn reconstruct          (fn item nested in a fn body)
    static CELSIUS
Each part is `<kw> <name-or-header>`.  For `impl` the header is everything
between `impl` and the opening brace, compared token-wise (whitespace and
comments ignored)."""

from dataclasses import dataclass
from .rusttok import tokenize, match_close, TRIVIA, norm, Tok

ITEM_KW = {"fn", "struct", "enum", "impl", "mod", "trait", "static", "const", "type", "use", "macro_rules", "union"}
SEMI_ITEMS = {"static", "const", "type", "use"}
QUALIFIERS = {"pub", "const", "unsafe", "async", "extern", "default"}


class LostAnchor(Exception):
    """An item / anchor the contracts refer to is no longer present (=> undecided, never a violation)."""


@dataclass
class Item:
    kw: str
    name: str            # ident, or normalised header for impl
    start: int           # token index of first token of the item (attrs/docs included)
    kw_tok: int
    body_open: int       # token index of `{` or -1
    end: int             # token index of last token of the item (inclusive)


def _sig_next(toks, k):
    k += 1
    while k < len(toks) and toks[k].kind in TRIVIA:
        k += 1
    return k


def _sig_prev(toks, k):
    k -= 1
    while k >= 0 and toks[k].kind in ("ws", "comment"):
        k -= 1
    return k


def _item_extent(toks, kw_idx, hi):
    """Return (body_open, end) for the item whose keyword token is at kw_idx."""
    kw = toks[kw_idx].text
    k = kw_idx + 1
    while k < hi:
        t = toks[k]
        if t.kind == "punct":
            if t.text in "([":
                k = match_close(toks, k) + 1
                continue
            if t.text == "{":
                close = match_close(toks, k)
                if kw in SEMI_ITEMS:
                    k = close + 1
                    continue
                return k, close
            if t.text == ";":
                return -1, k
        k += 1
    raise LostAnchor(f"unterminated item at token {kw_idx}")


def _item_start(toks, kw_idx, lo):
    """Walk back over qualifiers, attributes and doc comments."""
    start = kw_idx
    k = kw_idx
    while True:
        p = k - 1
        while p >= lo and toks[p].kind in ("ws", "comment"):
            p -= 1
        if p < lo:
            break
        t = toks[p]
        if t.kind == "ident" and t.text in QUALIFIERS:
            start = k = p
            continue
        if t.kind == "str" and p - 1 >= lo:  # extern "C"
            q = _sig_prev(toks, p)
            if q >= lo and toks[q].kind == "ident" and toks[q].text == "extern":
                start = k = q
                continue
        if t.kind == "punct" and t.text == ")":
            # pub(crate) / pub(super)
            depth = 0
            q = p
            while q >= lo:
                if toks[q].kind == "punct" and toks[q].text == ")":
                    depth += 1
                elif toks[q].kind == "punct" and toks[q].text == "(":
                    depth -= 1
                    if depth == 0:
                        break
                q -= 1
            q2 = _sig_prev(toks, q)
            if q2 >= lo and toks[q2].kind == "ident" and toks[q2].text == "pub":
                start = k = q2
                continue
            break
        if t.kind == "punct" and t.text == "]":
            depth = 0
            q = p
            while q >= lo:
                if toks[q].kind == "punct" and toks[q].text == "]":
                    depth += 1
                elif toks[q].kind == "punct" and toks[q].text == "[":
                    depth -= 1
                    if depth == 0:
                        break
                q -= 1
            q2 = _sig_prev(toks, q)
            if q2 >= lo and toks[q2].kind == "punct" and toks[q2].text == "#":
                start = k = q2
                continue
            break
        if t.kind == "doc":
            start = k = p
            continue
        break
    return start


def scan_items(toks, lo, hi):
    """All items whose keyword sits at delimiter depth 0 within toks[lo:hi]."""
    items = []
    k = lo
    while k < hi:
        t = toks[k]
        if t.kind == "punct" and t.text in "([{":
            k = match_close(toks, k) + 1
            continue
        if t.kind == "ident" and t.text in ITEM_KW:
            kw = t.text
            nxt = _sig_next(toks, k)
            if nxt >= hi:
                break
            nt = toks[nxt]
            if kw == "const" and nt.kind == "ident" and nt.text in ("fn", "unsafe", "extern", "async"):
                k += 1
                continue
            if kw == "fn" and nt.kind != "ident":   # fn-pointer type
                k += 1
                continue
            if kw == "macro_rules":
                # macro_rules! name { ... }
                n2 = _sig_next(toks, nxt)
                name = toks[n2].text
                body_open = _sig_next(toks, n2)
                end = match_close(toks, body_open)
                items.append(Item("macro_rules", name, _item_start(toks, k, lo), k, body_open, end))
                k = end + 1
                continue
            if kw in ("struct", "enum", "mod", "trait", "static", "const", "type", "fn", "union") and nt.kind != "ident":
                k += 1
                continue
            if kw == "use" and nt.kind not in ("ident", "punct"):
                k += 1
                continue
            # `static mut X`
            name_idx = nxt
            if kw == "static" and nt.text == "mut":
                name_idx = _sig_next(toks, nxt)
            body_open, end = _item_extent(toks, k, hi)
            if kw == "impl":
                hdr_end = body_open if body_open >= 0 else end
                name = " ".join(x.text for x in toks[k + 1:hdr_end] if x.kind not in TRIVIA)
            else:
                name = toks[name_idx].text
            items.append(Item(kw, name, _item_start(toks, k, lo), k, body_open, end))
            k = end + 1
            continue
        k += 1
    return items


def _norm_header(s):
    return " ".join(norm(s))


class SourceFile:
    def __init__(self, path, text):
        self.path = path
        self.text = text
        self.toks = tokenize(text)
        # line starts for offset->line
        self.line_starts = [0]
        for i, ch in enumerate(text):
            if ch == "\n":
                self.line_starts.append(i + 1)

    def line_of(self, offset):
        import bisect
        return bisect.bisect_right(self.line_starts, offset)

    def find(self, selector: str):
        """Return (Item, lo, hi) for the selector path."""
        parts = [p.strip() for p in selector.split(" :: ")]
        lo, hi = 0, len(self.toks)
        item = None
        for part in parts:
            import re as _re
            mm = _re.match(r"(\w+)(.*)$", part, _re.S)
            kw, rest = mm.group(1), mm.group(2).strip()
            if kw == "arm":
                # R16: the block of the match arm `<PATTERN> => { .. }` inside the enclosing item (unique token sequence)
                pat = norm(rest) + ["=", ">", "{"]
                sig = [k for k in range(lo, hi) if self.toks[k].kind not in TRIVIA]
                hits = [i for i in range(len(sig) - len(pat) + 1) if [self.toks[sig[i + j]].text for j in range(len(pat))] == pat]
                if len(hits) != 1:
                    raise LostAnchor(f"{self.path}: match arm `{rest} => {{` of `{selector}` found {len(hits)} times, expected 1")
                bo = sig[hits[0] + len(pat) - 1]
                item = Item("arm", rest, bo, bo, bo, match_close(self.toks, bo))
                lo, hi = item.body_open + 1, item.end
                continue
            want = _norm_header(rest) if kw == "impl" else rest
            cands = [it for it in scan_items(self.toks, lo, hi) if it.kw == kw and it.name == want]
            if not cands:
                raise LostAnchor(f"{self.path}: item `{part}` of `{selector}` not found")
            if len(cands) > 1:
                raise LostAnchor(f"{self.path}: item `{part}` of `{selector}` is ambiguous ({len(cands)} matches)")
            item = cands[0]
            if item.body_open >= 0:
                lo, hi = item.body_open + 1, item.end
            else:
                lo, hi = item.end, item.end
        return item

    def item_tokens(self, item: Item):
        return self.toks[item.start:item.end + 1]

    def item_text(self, item: Item):
        return self.text[self.toks[item.start].start:self.toks[item.end].end]
