"""Mechanical extraction of the derived-unit statics in /repo/src/units/*.rs (rule R7: closure lifting).

For every `pub static NAME: Derived = Derived { id: <path>::NAME, vtable: &DerivedVtable { powers: <closure|alias|fn path>,
format: .., conversion: <None|Some(Conversion::X(..))> } };` returns a dict with the exact token text of the `powers`
initialiser and of the `conversion` initialiser, plus file/line.  The nine `time!{..}` invocations are expanded by a
re-implementation of that macro's single pattern; the macro's own text is hashed so that a changed macro is a lost anchor."""

import glob
import hashlib
import os
import re

from .extract import SourceFile, LostAnchor, scan_items
from .rusttok import match_close, TRIVIA

TIME_MACRO_SHA = None  # filled on first run by tools; checked in generate_tables


def _field_inits(sf, toks, lo, hi):
    """Split `name: expr, name: expr` at depth 0 inside toks[lo:hi] -> {name: (start_tok, end_tok)}"""
    out = {}
    k = lo
    while k < hi:
        while k < hi and toks[k].kind in TRIVIA:
            k += 1
        if k >= hi:
            break
        name = toks[k].text
        j = k + 1
        while toks[j].kind in TRIVIA:
            j += 1
        if toks[j].text != ":":
            raise LostAnchor(f"{sf.path}: unexpected token {toks[j].text!r} in struct literal")
        j += 1
        start = j
        while j < hi and toks[j].kind in TRIVIA:
            j += 1
        if j < hi and toks[j].text == "|":
            # closure parameter list |a, b|
            j += 1
            while toks[j].text != "|":
                j += 1
            j += 1
        while j < hi:
            t = toks[j]
            if t.kind == "punct" and t.text in "([{":
                j = match_close(toks, j) + 1
                continue
            if t.kind == "punct" and t.text == ",":
                break
            j += 1
        out[name] = (start, j - 1)
        k = j + 1
    return out


def _text(sf, a, b):
    return sf.text[sf.toks[a].start:sf.toks[b].end].strip()


def parse_static(sf, item):
    toks = sf.toks
    # find `= Derived {`
    k = item.kw_tok
    while toks[k].text != "=":
        k += 1
    k += 1
    while toks[k].kind in TRIVIA:
        k += 1
    if toks[k].text != "Derived":
        raise LostAnchor(f"{sf.path}: static {item.name} is not a Derived literal")
    k += 1
    while toks[k].text != "{":
        k += 1
    close = match_close(toks, k)
    f = _field_inits(sf, toks, k + 1, close)
    if set(f) != {"id", "vtable"}:
        raise LostAnchor(f"{sf.path}: static {item.name}: unexpected Derived fields {sorted(f)}")
    id_text = _text(sf, *f["id"])
    vs, ve = f["vtable"]
    # &DerivedVtable { ... }
    j = vs
    while toks[j].text != "{":
        j += 1
    vclose = match_close(toks, j)
    vf = _field_inits(sf, toks, j + 1, vclose)
    if set(vf) != {"powers", "format", "conversion"}:
        raise LostAnchor(f"{sf.path}: static {item.name}: unexpected vtable fields {sorted(vf)}")
    return dict(name=item.name, file=sf.path, line=sf.line_of(toks[item.kw_tok].start), id=id_text,
                powers=_text(sf, *vf["powers"]), powers_line=sf.line_of(toks[vf["powers"][0]].start),
                conversion=_text(sf, *vf["conversion"]), conversion_line=sf.line_of(toks[vf["conversion"][0]].start))


def expand_time_macro(sf, macro_item, module_items):
    """time! { $(#[$m])* pub static $name = $fmt, $fmts, ($num, $den) }  -- re-implementation of the single pattern"""
    text = sf.item_text(macro_item)
    body_sha = hashlib.sha256(re.sub(r"\s+", " ", text).encode()).hexdigest()
    return body_sha


def collect(repo):
    """All Derived statics of src/units/*.rs -> list of dicts (see parse_static)."""
    out = []
    meta = {}
    for path in sorted(glob.glob(os.path.join(repo, "src/units/*.rs"))):
        rel = os.path.relpath(path, repo)
        sf = SourceFile(rel, open(path, encoding="utf-8").read())
        items = scan_items(sf.toks, 0, len(sf.toks))
        for it in items:
            if it.kw == "static":
                out.append(parse_static(sf, it))
        if rel.endswith("time.rs"):
            mac = [it for it in items if it.kw == "macro_rules" and it.name == "time"]
            if len(mac) != 1:
                raise LostAnchor("src/units/time.rs: macro_rules! time not found")
            meta["time_macro_sha"] = expand_time_macro(sf, mac[0], items)
            meta["time_macro_text"] = sf.item_text(mac[0])
            # invocations: time! { ... }
            toks = sf.toks
            k = 0
            n = len(toks)
            while k < n:
                t = toks[k]
                if t.kind == "ident" and t.text == "time" and k + 1 < n and toks[k + 1].text == "!":
                    j = k + 2
                    while toks[j].kind in TRIVIA:
                        j += 1
                    if toks[j].text == "{" and not (k >= 2 and toks[k - 2].text == "macro_rules"):
                        close = match_close(toks, j)
                        sig = [q for q in range(j + 1, close) if toks[q].kind not in ("ws", "comment", "doc")]
                        # skip attributes
                        p = 0
                        while toks[sig[p]].text == "#":
                            br = sig[p + 1]
                            endb = match_close(toks, br)
                            while sig[p] <= endb:
                                p += 1
                        texts = [toks[q].text for q in sig[p:]]
                        # pub static NAME = ( ID , NUM / DEN ) , FMT
                        if texts[0:2] != ["pub", "static"] or texts[3] != "=" or texts[4] != "(":
                            raise LostAnchor(f"{rel}: time! invocation shape changed: {texts[:8]}")
                        name = texts[2]
                        paren = sig[p + 4]
                        pclose = match_close(toks, paren)
                        inner = [q for q in range(paren + 1, pclose) if toks[q].kind not in TRIVIA]
                        # split at the depth-0 comma
                        comma = [q for q in inner if toks[q].text == ","]
                        if len(comma) != 1:
                            raise LostAnchor(f"{rel}: time! invocation shape changed (id, num / den)")
                        id_text = sf.text[toks[inner[0]].start:toks[comma[0]].start].strip()
                        frac = [toks[q].text for q in inner if q > comma[0]]
                        if len(frac) != 3 or frac[1] != "/":
                            raise LostAnchor(f"{rel}: time! invocation shape changed (num / den): {frac}")
                        num, den = frac[0], frac[2]
                        out.append(dict(name=name, file=rel, line=sf.line_of(toks[k].start), id=id_text,
                                        powers="time_powers", powers_line=sf.line_of(toks[k].start),
                                        conversion=f"Some(Conversion::Factor(ConversionFraction {{ numer: {num}, denom: {den} }}))",
                                        conversion_line=sf.line_of(toks[paren].start), via_macro=True))
                        k = close + 1
                        continue
                k += 1
    return out, meta


def parse_conversion(text):
    """-> ('none',) | ('factor', n, d) | ('offset', n, d) | ('methods', to_closure_text, from_closure_text)"""
    t = re.sub(r"\s+", " ", text).strip()
    if t == "None":
        return ("none",)
    m = re.match(r"Some\(Conversion::(Factor|Offset)\(ConversionFraction \{ numer: ([0-9_]+), denom: ([0-9_]+),? \}\)\)$", t)
    if m:
        return (m.group(1).lower(), int(m.group(2).replace("_", "")), int(m.group(3).replace("_", "")))
    if t.startswith("Some(Conversion::Methods("):
        return ("methods", text)
    raise LostAnchor(f"conversion initialiser not understood: {t[:80]}")


if __name__ == "__main__":
    import sys
    units, meta = collect(sys.argv[1] if len(sys.argv) > 1 else "/repo")
    for u in units:
        print(u["name"], "|", re.sub(r"\s+", " ", u["powers"])[:150], "|", re.sub(r"\s+", " ", u["conversion"])[:120])
    print(len(units), meta.get("time_macro_sha"))


# ---------------------------------------------------------------------------------------------
# rendering of the TABLES section (called from gen.generate for the `/*@@ tables @@*/` directive)

BASES = ["KiloGram", "Candela", "Meter", "Second", "Ampere", "Kelvin", "Mole", "Byte"]


def _closure_parts(text):
    """`|a, b| { body }` -> ([a, b], body-with-braces)"""
    m = re.match(r"\s*\|([^|]*)\|\s*(\{.*\})\s*$", text, re.S)
    if not m:
        return None
    params = [p.strip() for p in m.group(1).split(",") if p.strip()]
    return params, m.group(2)


def load_pins():
    """known findings that pin a (wrong) constant: NAME -> Fraction string (read from the committed file, never written)"""
    import json
    pins = {}
    path = os.path.join(os.path.dirname(os.path.dirname(os.path.abspath(__file__))), "known_findings.jsonl")
    if os.path.exists(path):
        for line in open(path, encoding="utf-8"):
            line = line.strip()
            if line.startswith("{"):
                d = json.loads(line)
                if "pinned" in d:
                    pins[d["pinned"]["unit"]] = d["pinned"]["fraction"]
    return pins


def render_tables(repo, std, canary=False):
    """-> (chunks [(text, origin)], items_meta, clauses_meta, rules)"""
    from fractions import Fraction as F
    units, meta = collect(repo)
    chunks, items, clauses, rules = [], [], [], []

    def emit(text, origin):
        for line in text.split("\n"):
            chunks.append((line + "\n", origin))

    def clause(item, cid, kind, tags, text, indent="        "):
        clauses.append(dict(item=item, cid=cid, kind=kind, tags=tags, trusted=False))
        emit(f"{indent}{text}, // [{cid}]", ("clause", item, cid, kind, tags))

    ids_text = open(os.path.join(repo, "src", "generated", "ids.rs"), encoding="utf-8").read()
    ids = {m.group(1): m.group(2) for m in re.finditer(r"pub const (\w+): u32 = (\d+);", ids_text)}
    emit("// ---- TABLES: generated from src/units/*.rs (R7 closure lifting) and contracts/standards.toml", ("tmpl", "tables", 0))
    if meta.get("time_macro_sha") != TIME_MACRO_EXPECTED:
        raise LostAnchor("src/units/time.rs: macro_rules! time changed (its single pattern is re-implemented by the extractor); sha " + str(meta.get("time_macro_sha")))
    rules.append(dict(rule="R7m", site="src/units/time.rs", item="macro_rules! time", note="9 time!{..} invocations expanded by the re-implemented pattern (macro text hash checked)"))
    by_name = {u["name"]: u for u in units}
    for u in units:
        name = u["name"]
        if name not in std:
            raise LostAnchor(f"{u['file']}: static {name} has no entry in contracts/standards.toml (new unit: the oracle must be extended first)")
        dim = std[name]["dim"]
        arms = " ".join(f"Unit::{b} => {d}int," for b, d in zip(BASES, dim) if d != 0)
        emit(f"pub open spec fn std_dim_{name}(k: Unit) -> int {{ match k {{ {arms} _ => 0int }} }}", ("tmpl", "standards", 0))
    cur_mod = [None]

    def switch_mod(file):
        # one Verus module per source file: modules are verified in parallel
        if cur_mod[0] == file:
            return
        if cur_mod[0] is not None:
            emit("}", ("tmpl", "tables", 0))
        cur_mod[0] = file
        if file is not None:
            mname = "tables_" + re.sub(r"[^A-Za-z0-9]", "_", file)
            emit(f"pub mod {mname} {{\nuse vstd::prelude::*;\nuse super::*;\nbroadcast use super::base::axiom_bigint_of;", ("tmpl", "tables", 0))
    # named fn used as `powers:` (time_powers)
    lifted = {}   # NAME -> fn name proving its closure
    for u in units:
        name = u["name"]
        item = f"{u['file']} :: static {name}"
        dim = std[name]["dim"]
        switch_mod(u["file"])
        # id linkage
        id_last = u["id"].split("::")[-1].strip()
        if id_last not in ids:
            raise LostAnchor(f"{u['file']}: id expression `{u['id']}` of {name} not found in src/generated/ids.rs")
        emit(f"proof fn table_id_{name}()\n    ensures", ("tmpl", "tables", 0))
        clause(item, f"tables.{name}.id", "ensures", ["C05", "C17"], f"{ids[id_last]}u32 == {ids.get(name, '0')}u32")
        emit("{ }", ("tmpl", "tables", 0))
        # dimension table facts (so that the assumed dispatch contract `dim_table_ok` is backed)
        emit(f"proof fn table_dim_ok_{name}()\n    ensures", ("tmpl", "tables", 0))
        clause(item, f"tables.{name}.dim_ok", "ensures", ["C02", "C05"], f"(forall|k: Unit| -8 <= #[trigger] std_dim_{name}(k) <= 8 && (std_dim_{name}(k) != 0 ==> is_base(k))) && (exists|k: Unit| #[trigger] std_dim_{name}(k) != 0)")
        wit = BASES[[i for i, d in enumerate(dim) if d != 0][0]] if any(dim) else BASES[0]
        emit(f"{{ assert(std_dim_{name}(Unit::{wit}) != 0); }}", ("tmpl", "tables", 0))
        # powers
        cp = _closure_parts(u["powers"])
        if cp is not None:
            params, body = cp
            if len(params) != 2:
                raise LostAnchor(f"{item}: powers closure has {len(params)} parameters")
            fn = f"powers_{name}"
            lifted[name] = fn
            rules.append(dict(rule="R7", site=f"{u['file']}:{u['powers_line']}", item=item, note=f"`powers:` closure lifted to fn {fn}({params[0]}: &mut Powers, {params[1]}: i32)"))
            items.append(dict(file=u["file"], selector=f"static {name} :: powers closure", lines=[u["powers_line"], u["powers_line"] + body.count("\n")],
                              sha256=hashlib.sha256(u["powers"].encode()).hexdigest(), props=["C05", "C02"], trusted=False, kind="fn"))
            iid = f"{u['file']} :: static {name} :: powers closure"
            emit(f"fn {fn}({params[0]}: &mut Powers, {params[1]}: i32)\n    requires", ("tmpl", "tables", 0))
            clause(iid, f"tables.{name}.powers.pre", "requires", ["C05"], f"old({params[0]}).wf() && {params[1]} != 0 && -100000 <= {params[1]} <= 100000 && pw_bounded(old({params[0]})@, 100_000_000)")
            emit("    ensures", ("tmpl", "tables", 0))
            clause(iid, f"tables.{name}.powers", "ensures", ["C05", "C02", "C04"], f"final({params[0]}).wf() && (forall|k: Unit| pw_get(final({params[0]})@, k) == pw_get(old({params[0]})@, k) + {params[1]} as int * std_dim_{name}(k))")
            # body: real text, line by line with code origins
            base_line = u["powers_line"]
            for i, line in enumerate(body.split("\n")):
                if i == 0 and line.strip() == "{":
                    chunks.append((line + "\n", ("code", u["file"], base_line + i, iid)))
                    if canary:
                        emit("assert(false); // canary", ("canary", iid))
                    # Verus treats `p * -2` (unary minus on a literal) as a non-linear product: spell the products out once
                    hints = " ".join(f"assert({params[1]} * (-{c}) == -({c} * {params[1]})) by(nonlinear_arith);" for c in (1, 2, 3, 4, 5, 6))
                    emit("        proof { " + hints + " }", ("ghost", iid, "neg-literal products"))
                else:
                    chunks.append((line + "\n", ("code", u["file"], base_line + i, iid)))
        else:
            target = u["powers"].strip()
            m = re.match(r"(?:[\w:]*::)?(\w+)\.vtable\.powers$", target)
            if m:
                other = m.group(1)
                if other not in by_name:
                    raise LostAnchor(f"{item}: powers alias `{target}` points at an unknown static")
                rules.append(dict(rule="R7a", site=f"{u['file']}:{u['powers_line']}", item=item, note=f"`powers: {target}` resolved to the closure of {other}"))
                emit(f"proof fn table_alias_{name}()\n    ensures", ("tmpl", "tables", 0))
                clause(item, f"tables.{name}.powers_alias", "ensures", ["C05", "C02"], f"forall|k: Unit| std_dim_{name}(k) == std_dim_{other}(k)")
                emit("{ }", ("tmpl", "tables", 0))
            elif re.fullmatch(r"\w+", target):
                # a named fn item (time_powers): proved once below, per-unit obligation is equality of the dimension vectors
                lifted.setdefault("@fn:" + target, name)
                first = lifted["@fn:" + target]
                emit(f"proof fn table_alias_{name}()\n    ensures", ("tmpl", "tables", 0))
                clause(item, f"tables.{name}.powers_alias", "ensures", ["C05", "C02"], f"forall|k: Unit| std_dim_{name}(k) == std_dim_{first}(k)")
                emit("{ }", ("tmpl", "tables", 0))
            else:
                raise LostAnchor(f"{item}: `powers:` initialiser not understood: {target[:60]}")
        # conversion
        conv = parse_conversion(u["conversion"])
        readings = [F(x) for x in std[name]["readings"]]
        if conv[0] == "none":
            emit(f"proof fn table_conv_{name}()\n    ensures", ("tmpl", "tables", 0))
            ok = "true" if F(1) in readings else "false"
            clause(item, f"tables.{name}.conv", "ensures", ["C05"], f"{ok} /* no conversion: the coherent SI unit; standard readings {std[name]['readings']} */")
            emit("{ }", ("tmpl", "tables", 0))
        elif conv[0] in ("factor", "offset"):
            n_txt, d_txt = conv[1], conv[2]
            emit(f"proof fn table_conv_{name}()\n    ensures", ("tmpl", "tables", 0))
            clause(item, f"tables.{name}.conv_ok", "ensures", ["C05", "C11"], f"{n_txt}int != 0 && {d_txt}int != 0")
            if conv[0] == "factor":
                alts = " || ".join(f"{n_txt}int * {r.denominator}int == {d_txt}int * {r.numerator}int" for r in readings)
            else:
                off = F(std[name]["offset_kelvin"])
                alts = f"{n_txt}int * {off.denominator}int == {d_txt}int * {off.numerator}int"
            clause(item, f"tables.{name}.conv", "ensures", ["C05", "C09"] if conv[0] == "offset" else ["C05"], alts)
            pins = load_pins()
            if name in pins:
                # a known finding owns this constant: pin the recorded wrong value so that a DIFFERENT wrong value is still reported
                pf = F(pins[name])
                clause(item, f"tables.{name}.conv_kf_pin", "ensures", ["C05"], f"{n_txt}int * {pf.denominator}int == {d_txt}int * {pf.numerator}int")
            emit("{ }", ("tmpl", "tables", 0))
            rules.append(dict(rule="R7c", site=f"{u['file']}:{u['conversion_line']}", item=item, note=f"conversion literal {conv[0]} {n_txt}/{d_txt} copied into the obligation"))
        else:
            # Methods: lift `to:` and `from:` closures
            text = u["conversion"]
            mt = re.search(r"to:\s*(\|[^|]*\|\s*\{.*?\n\s*\}),\s*from:\s*(\|[^|]*\|\s*\{.*?\n\s*\}),?\s*\}\)\)", text, re.S)
            if not mt:
                raise LostAnchor(f"{item}: ConversionMethods initialiser not understood")
            for which, ctext, formula in (("to", mt.group(1), "(old(P)@ - 32real) * 5real / 9real + 273.15real"), ("from", mt.group(2), "(old(P)@ - 273.15real) * 9real / 5real + 32real")):
                params, body = _closure_parts(ctext)
                fn = f"methods_{which}_{name}"
                iid = f"{u['file']} :: static {name} :: {which} closure"
                off = text.index(ctext)
                line0 = u["conversion_line"] + text[:off].count("\n")
                items.append(dict(file=u["file"], selector=f"static {name} :: {which} closure", lines=[line0, line0 + body.count("\n")],
                                  sha256=hashlib.sha256(ctext.encode()).hexdigest(), props=["C09", "C05"], trusted=False, kind="fn"))
                rules.append(dict(rule="R7", site=f"{u['file']}:{line0}", item=item, note=f"`{which}:` closure lifted to fn {fn}({params[0]}: &mut Rational)"))
                emit(f"fn {fn}({params[0]}: &mut Rational)\n    ensures", ("tmpl", "tables", 0))
                clause(iid, f"tables.{name}.{which}", "ensures", ["C09", "C05"], f"final({params[0]})@ == " + formula.replace("P", params[0]))
                for i, line in enumerate(body.split("\n")):
                    if i == 0:
                        chunks.append((line + "\n", ("code", u["file"], line0 + i, iid)))
                        if canary:
                            emit("assert(false); // canary", ("canary", iid))
                        emit("        proof { assert((32int) as real / (1int) as real == 32real) by(nonlinear_arith); assert((27315int) as real / (100int) as real == 273.15real) by(nonlinear_arith); assert((5int) as real / (9int) as real == 5real / 9real); assert((9int) as real / (5int) as real == 9real / 5real); }", ("ghost", iid, "consts"))
                    elif i == len(body.split("\n")) - 1 and line.strip() == "}":
                        c0, c1 = ("32real", "5real / 9real") if which == "to" else ("273.15real", "9real / 5real")
                        c1n, c1d = c1.split(" / ")
                        emit(f"        proof {{ let a = old({params[0]})@ - {c0}; assert(a * ({c1}) == a * {c1n} / {c1d}) by(nonlinear_arith); }}", ("ghost", iid, "linear step"))
                        chunks.append((line + "\n", ("code", u["file"], line0 + i, iid)))
                    else:
                        chunks.append((line + "\n", ("code", u["file"], line0 + i, iid)))
    switch_mod(None)
    # named fn items used as powers
    for key, first in list(lifted.items()):
        if not key.startswith("@fn:"):
            continue
        fname = key[4:]
        u = by_name[first]
        sf = SourceFile(u["file"], open(os.path.join(repo, u["file"]), encoding="utf-8").read())
        it = sf.find(f"fn {fname}")
        text = sf.item_text(it)
        m = re.match(r"\s*fn\s+\w+\s*\(\s*(\w+)\s*:\s*&mut\s+Powers\s*,\s*(\w+)\s*:\s*i32\s*\)\s*(\{.*\})\s*$", text, re.S)
        if not m:
            raise LostAnchor(f"{u['file']}: fn {fname} signature changed")
        p0, p1, body = m.group(1), m.group(2), m.group(3)
        iid = f"{u['file']} :: fn {fname}"
        line0 = sf.line_of(sf.toks[it.kw_tok].start)
        items.append(dict(file=u["file"], selector=f"fn {fname}", lines=[line0, line0 + text.count("\n")], sha256=hashlib.sha256(text.encode()).hexdigest(), props=["C05", "C02"], trusted=False, kind="fn"))
        emit(f"fn {fname}({p0}: &mut Powers, {p1}: i32)\n    requires", ("tmpl", "tables", 0))
        clause(iid, f"tables.{fname}.pre", "requires", ["C05"], f"old({p0}).wf() && {p1} != 0 && -100000 <= {p1} <= 100000 && pw_bounded(old({p0})@, 100_000_000)")
        emit("    ensures", ("tmpl", "tables", 0))
        clause(iid, f"tables.{fname}.powers", "ensures", ["C05", "C02", "C04"], f"final({p0}).wf() && (forall|k: Unit| pw_get(final({p0})@, k) == pw_get(old({p0})@, k) + {p1} as int * std_dim_{first}(k))")
        body_line = line0 + text[:text.index(body)].count("\n")
        for i, line in enumerate(body.split("\n")):
            chunks.append((line + "\n", ("code", u["file"], body_line + i, iid)))
            if i == 0 and canary:
                emit("assert(false); // canary", ("canary", iid))
    # prefix constants
    pf = SourceFile("src/prefix.rs", open(os.path.join(repo, "src/prefix.rs"), encoding="utf-8").read())
    impl = pf.find("impl Prefix")
    seen = set()
    for it in scan_items(pf.toks, impl.body_open + 1, impl.end):
        if it.kw == "const":
            text = pf.item_text(it)
            m = re.search(r"const\s+(\w+)\s*:\s*i32\s*=\s*(-?\s*\d+)\s*;", text)
            if not m:
                raise LostAnchor(f"src/prefix.rs: const {it.name} not understood")
            pname, val = m.group(1), m.group(2).replace(" ", "")
            if pname not in std["_prefixes"]:
                raise LostAnchor(f"src/prefix.rs: prefix {pname} has no entry in standards.toml")
            seen.add(pname)
            item = f"src/prefix.rs :: impl Prefix :: const {pname}"
            emit(f"proof fn table_prefix_{pname}()\n    ensures", ("tmpl", "tables", 0))
            clause(item, f"tables.prefix.{pname}", "ensures", ["C03", "C05"], f"({val}) as int == {std['_prefixes'][pname]}int")
            emit("{ }", ("tmpl", "tables", 0))
    missing = set(std["_prefixes"]) - seen
    if missing:
        raise LostAnchor(f"src/prefix.rs: prefix constants missing: {sorted(missing)}")
    return chunks, items, clauses, rules


TIME_MACRO_EXPECTED = "47ee6414200b8da6d486373931a7ff65f9f97f1fcf2576af2c6c612b5378adf9"
