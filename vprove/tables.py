"""Mechanical extraction of the derived-unit statics in /repo/src/units/*.rs (rule R7: closure lifting).

For every `pub static NAME: Derived = Derived { id: <path>::NAME, vtable: &DerivedVtable { powers: <closure|alias|fn path>,
format: .., conversion: <None|Some(Conversion::X(..))> } };` returns a dict with the exact token text of the `powers`
initialiser and of the `conversion` initialiser, plus file/line.  The nine `time!{..}` invocations are expanded by a
re-implementation of that macro's single pattern; the macro's own text is hashed so that a changed macro is a lost anchor."""

import glob
import hashlib
import os
import re

from .extract import SourceFile, LostAnchor, scan_items
from .rusttok import match_close, TRIVIA

TIME_MACRO_SHA = None  # filled on first run by tools; checked in generate_tables


def _field_inits(sf, toks, lo, hi):
    """Split `name: expr, name: expr` at depth 0 inside toks[lo:hi] -> {name: (start_tok, end_tok)}"""
    out = {}
    k = lo
    while k < hi:
        while k < hi and toks[k].kind in TRIVIA:
            k += 1
        if k >= hi:
            break
        name = toks[k].text
        j = k + 1
        while toks[j].kind in TRIVIA:
            j += 1
        if toks[j].text != ":":
            raise LostAnchor(f"{sf.path}: unexpected token {toks[j].text!r} in struct literal")
        j += 1
        start = j
        while j < hi and toks[j].kind in TRIVIA:
            j += 1
        if j < hi and toks[j].text == "|":
            # closure parameter list |a, b|
            j += 1
            while toks[j].text != "|":
                j += 1
            j += 1
        while j < hi:
            t = toks[j]
            if t.kind == "punct" and t.text in "([{":
                j = match_close(toks, j) + 1
                continue
            if t.kind == "punct" and t.text == ",":
                break
            j += 1
        out[name] = (start, j - 1)
        k = j + 1
    return out


def _text(sf, a, b):
    return sf.text[sf.toks[a].start:sf.toks[b].end].strip()


def parse_static(sf, item):
    toks = sf.toks
    # find `= Derived {`
    k = item.kw_tok
    while toks[k].text != "=":
        k += 1
    k += 1
    while toks[k].kind in TRIVIA:
        k += 1
    if toks[k].text != "Derived":
        raise LostAnchor(f"{sf.path}: static {item.name} is not a Derived literal")
    k += 1
    while toks[k].text != "{":
        k += 1
    close = match_close(toks, k)
    f = _field_inits(sf, toks, k + 1, close)
    if set(f) != {"id", "vtable"}:
        raise LostAnchor(f"{sf.path}: static {item.name}: unexpected Derived fields {sorted(f)}")
    id_text = _text(sf, *f["id"])
    vs, ve = f["vtable"]
    # &DerivedVtable { ... }
    j = vs
    while toks[j].text != "{":
        j += 1
    vclose = match_close(toks, j)
    vf = _field_inits(sf, toks, j + 1, vclose)
    if set(vf) != {"powers", "format", "conversion"}:
        raise LostAnchor(f"{sf.path}: static {item.name}: unexpected vtable fields {sorted(vf)}")
    return dict(name=item.name, file=sf.path, line=sf.line_of(toks[item.kw_tok].start), id=id_text,
                powers=_text(sf, *vf["powers"]), powers_line=sf.line_of(toks[vf["powers"][0]].start),
                conversion=_text(sf, *vf["conversion"]), conversion_line=sf.line_of(toks[vf["conversion"][0]].start))


def expand_time_macro(sf, macro_item, module_items):
    """time! { $(#[$m])* pub static $name = $fmt, $fmts, ($num, $den) }  -- re-implementation of the single pattern"""
    text = sf.item_text(macro_item)
    body_sha = hashlib.sha256(re.sub(r"\s+", " ", text).encode()).hexdigest()
    return body_sha


def collect(repo):
    """All Derived statics of src/units/*.rs -> list of dicts (see parse_static)."""
    out = []
    meta = {}
    for path in sorted(glob.glob(os.path.join(repo, "src/units/*.rs"))):
        rel = os.path.relpath(path, repo)
        sf = SourceFile(rel, open(path, encoding="utf-8").read())
        items = scan_items(sf.toks, 0, len(sf.toks))
        for it in items:
            if it.kw == "static":
                out.append(parse_static(sf, it))
        if rel.endswith("time.rs"):
            mac = [it for it in items if it.kw == "macro_rules" and it.name == "time"]
            if len(mac) != 1:
                raise LostAnchor("src/units/time.rs: macro_rules! time not found")
            meta["time_macro_sha"] = expand_time_macro(sf, mac[0], items)
            meta["time_macro_text"] = sf.item_text(mac[0])
            # invocations: time! { ... }
            toks = sf.toks
            k = 0
            n = len(toks)
            while k < n:
                t = toks[k]
                if t.kind == "ident" and t.text == "time" and k + 1 < n and toks[k + 1].text == "!":
                    j = k + 2
                    while toks[j].kind in TRIVIA:
                        j += 1
                    if toks[j].text == "{" and not (k >= 2 and toks[k - 2].text == "macro_rules"):
                        close = match_close(toks, j)
                        sig = [q for q in range(j + 1, close) if toks[q].kind not in ("ws", "comment", "doc")]
                        # skip attributes
                        p = 0
                        while toks[sig[p]].text == "#":
                            br = sig[p + 1]
                            endb = match_close(toks, br)
                            while sig[p] <= endb:
                                p += 1
                        texts = [toks[q].text for q in sig[p:]]
                        # pub static NAME = ( ID , NUM / DEN ) , FMT
                        if texts[0:2] != ["pub", "static"] or texts[3] != "=" or texts[4] != "(":
                            raise LostAnchor(f"{rel}: time! invocation shape changed: {texts[:8]}")
                        name = texts[2]
                        paren = sig[p + 4]
                        pclose = match_close(toks, paren)
                        inner = [q for q in range(paren + 1, pclose) if toks[q].kind not in TRIVIA]
                        # split at the depth-0 comma
                        comma = [q for q in inner if toks[q].text == ","]
                        if len(comma) != 1:
                            raise LostAnchor(f"{rel}: time! invocation shape changed (id, num / den)")
                        id_text = sf.text[toks[inner[0]].start:toks[comma[0]].start].strip()
                        frac = [toks[q].text for q in inner if q > comma[0]]
                        if len(frac) != 3 or frac[1] != "/":
                            raise LostAnchor(f"{rel}: time! invocation shape changed (num / den): {frac}")
                        num, den = frac[0], frac[2]
                        out.append(dict(name=name, file=rel, line=sf.line_of(toks[k].start), id=id_text,
                                        powers="time_powers", powers_line=sf.line_of(toks[k].start),
                                        conversion=f"Some(Conversion::Factor(ConversionFraction {{ numer: {num}, denom: {den} }}))",
                                        conversion_line=sf.line_of(toks[paren].start), via_macro=True))
                        k = close + 1
                        continue
                k += 1
    return out, meta


def parse_conversion(text):
    """-> ('none',) | ('factor', n, d) | ('offset', n, d) | ('methods', to_closure_text, from_closure_text)"""
    t = re.sub(r"\s+", " ", text).strip()
    if t == "None":
        return ("none",)
    m = re.match(r"Some\(Conversion::(Factor|Offset)\(ConversionFraction \{ numer: ([0-9_]+), denom: ([0-9_]+),? \}\)\)$", t)
    if m:
        return (m.group(1).lower(), int(m.group(2).replace("_", "")), int(m.group(3).replace("_", "")))
    if t.startswith("Some(Conversion::Methods("):
        return ("methods", text)
    raise LostAnchor(f"conversion initialiser not understood: {t[:80]}")


if __name__ == "__main__":
    import sys
    units, meta = collect(sys.argv[1] if len(sys.argv) > 1 else "/repo")
    for u in units:
        print(u["name"], "|", re.sub(r"\s+", " ", u["powers"])[:150], "|", re.sub(r"\s+", " ", u["conversion"])[:120])
    print(len(units), meta.get("time_macro_sha"))
