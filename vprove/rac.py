"""Client for the E2 harness (`/verif/harness`, binary `rac`): builds it against /repo's working tree and talks
to it over a line protocol.  Also loads the independent standards table."""

import json
import os
import re
import subprocess
import threading
import tomllib
from fractions import Fraction as F

from .gen import VERIF

TARGET = os.path.join(VERIF, ".build", "rac")
BASE_ORDER = ["KiloGram", "Candela", "Meter", "Second", "Ampere", "Kelvin", "Mole", "Byte"]


class HarnessError(Exception):
    pass


ANSWER_TIMEOUT_S = 120      # per answer; the stand-ins keep every single command far below this on the pinned tree


def build(repo="/repo", release=False):
    hdir = os.path.join(VERIF, "harness")
    lock = os.path.join(repo, "Cargo.lock")
    if os.path.exists(lock):
        # same dependency versions as the repository (offline resolution)
        with open(lock) as f:
            text = f.read()
        # the harness package itself is added by cargo; keep the repo's pins
        dst = os.path.join(hdir, "Cargo.lock")
        if not os.path.exists(dst):
            with open(dst, "w") as f:
                f.write(text)
    env = dict(os.environ, CARGO_TARGET_DIR=TARGET, CARGO_NET_OFFLINE="true")
    cmd = ["cargo", "build", "--offline", "--quiet"] + (["--release"] if release else [])
    p = subprocess.run(cmd, cwd=hdir, env=env, capture_output=True, text=True)
    if p.returncode != 0:
        raise HarnessError("harness build failed:\n" + p.stderr[-3000:])
    return os.path.join(TARGET, "release" if release else "debug", "rac")


def build_cli(repo="/repo"):
    """The real `any` binary of the repository's working tree (src/bin/any.rs), built into /verif/.build (never into /repo/target)."""
    env = dict(os.environ, CARGO_TARGET_DIR=TARGET, CARGO_NET_OFFLINE="true")
    p = subprocess.run(["cargo", "build", "--offline", "--quiet", "--bin", "any", "--manifest-path", os.path.join(repo, "Cargo.toml")], env=env, capture_output=True, text=True)
    if p.returncode != 0:
        raise HarnessError("building the `any` binary failed:\n" + p.stderr[-3000:])
    return os.path.join(TARGET, "debug", "any")


def run_cli(binary, data_home, args, timeout=60):
    """stdout (ANSI escapes removed), exit status"""
    env = dict(os.environ, HOME=data_home, XDG_DATA_HOME=data_home, NO_COLOR="1", TERM="dumb")
    env.pop("RUST_LOG", None)
    p = subprocess.run([binary] + args, env=env, capture_output=True, text=True, timeout=timeout)
    return re.sub(r"\x1b\[[0-9;]*m", "", p.stdout), p.returncode, p.stderr


class Rac:
    def __init__(self, repo="/repo", release=False, data_home=None):
        self.bin = build(repo, release)
        self.repo = repo
        self.data_home = data_home
        self.p = subprocess.Popen([self.bin], stdin=subprocess.PIPE, stdout=subprocess.PIPE, stderr=subprocess.DEVNULL, text=True, bufsize=1, env=self._env())
        pong = self.ask({"cmd": "ping"})
        self.debug_assertions = pong.get("debug_assertions")

    def _env(self):
        """data_home=None: a private in-memory database per process; data_home=<dir>: the on-disk database under <dir>, shared by every process given the same dir"""
        if self.data_home:
            return dict(os.environ, HOME=self.data_home, XDG_DATA_HOME=self.data_home, RAC_DB_DISK="1")
        return dict(os.environ, HOME="/var/tmp", XDG_DATA_HOME="/var/tmp/anything-verif-data")

    def ask(self, cmd):
        return self.ask_many([cmd])[0]

    def ask_many(self, cmds, chunk=256):
        out = []
        proc = self.p      # a caller that gave up on us (time-boxed ask) restarts the harness: then we must not touch the new process
        for i in range(0, len(cmds), chunk):
            part = cmds[i:i + chunk]
            data = "".join(json.dumps(c, ensure_ascii=False) + "\n" for c in part)
            t = threading.Thread(target=self._write, args=(data,))
            t.start()
            for c in part:
                line = self._readline(ANSWER_TIMEOUT_S)
                if self.p is not proc:
                    raise HarnessError("abandoned (the harness was restarted by a time-boxed caller)")
                if line is None:
                    # no answer in ANSWER_TIMEOUT_S seconds: the real library does not come back from this command (answers arrive in
                    # order, so this is the one in flight).  Never hang the check: kill the process and report the command.
                    self._restart()
                    t.join(2)
                    raise HarnessError(f"harness did not answer within {ANSWER_TIMEOUT_S} s (non-termination in the real library) while answering {json.dumps(c, ensure_ascii=False)[:300]}")
                if not line:
                    t.join()
                    # the process died (abort / stack overflow): report which command was in flight
                    raise HarnessError(f"harness died while answering {json.dumps(c, ensure_ascii=False)[:300]} (exit {self.p.poll()})")
                out.append(json.loads(line))
            t.join()
        return out

    def _readline(self, timeout_s):
        """one answer line, "" at end of file, None if nothing arrived in time (read by a helper thread so that a spinning harness cannot block us)"""
        import queue
        if getattr(self, "_q_proc", None) is not self.p:
            self._q = queue.Queue()
            self._q_proc = self.p

            def pump(proc, q):
                try:
                    for ln in proc.stdout:
                        q.put(ln)
                except Exception:
                    pass
                q.put("")
            threading.Thread(target=pump, args=(self.p, self._q), daemon=True).start()
        try:
            return self._q.get(timeout=timeout_s)
        except queue.Empty:
            return None

    def _write(self, data):
        try:
            self.p.stdin.write(data)
            self.p.stdin.flush()
        except BrokenPipeError:
            pass

    def _restart(self):
        try:
            self.p.kill()
        except Exception:
            pass
        self.p = subprocess.Popen([self.bin], stdin=subprocess.PIPE, stdout=subprocess.PIPE, stderr=subprocess.DEVNULL, text=True, bufsize=1, env=self._env())
        self.ask({"cmd": "ping"})

    def _ask_chunk_timed(self, part, timeout_s):
        box = {}

        def work():
            try:
                box["a"] = self.ask_many(part, chunk=len(part))
            except Exception as e:
                box["e"] = e
        t = threading.Thread(target=work, daemon=True)
        t.start()
        t.join(timeout_s)
        if t.is_alive() or "e" in box:
            self._restart()
            t.join(2)
            return None
        return box["a"]

    def ask_many_guarded(self, cmds, chunk=200, per_cmd_s=3.0, max_timeouts=8):
        """like ask_many, but a command the real library does not answer within per_cmd_s seconds yields {"timeout": true}
        (the harness process is killed and restarted) instead of hanging the check; after max_timeouts such commands the rest is not
        asked any more and yields {"skipped": true} (a library that hangs on many inputs must not turn the check into an hours-long run)"""
        out = []
        timeouts = 0
        for i in range(0, len(cmds), chunk):
            part = cmds[i:i + chunk]
            if timeouts >= max_timeouts:
                out.extend({"skipped": True} for _ in part)
                continue
            ans = self._ask_chunk_timed(part, 10.0 + 0.05 * len(part))
            if ans is None:
                ans = []
                for c in part:
                    if timeouts >= max_timeouts:
                        ans.append({"skipped": True})
                        continue
                    a = self._ask_chunk_timed([c], per_cmd_s)
                    if a is None:
                        timeouts += 1
                    ans.append(a[0] if a is not None else {"timeout": True})
            out.extend(ans)
        return out

    def query(self, q, timeout_s=10.0):
        """one query, time-boxed: {"timeout": true} if the real library does not answer (it is killed and restarted)"""
        a = self._ask_chunk_timed([{"cmd": "query", "q": q}], timeout_s)
        return a[0] if a is not None else {"timeout": True}

    def close(self):
        try:
            self.p.stdin.close()
            self.p.wait(timeout=5)
        except Exception:
            self.p.kill()


# ---------------------------------------------------------------------------------------------
# standards + vocabulary


class Units:
    """Independent unit table: standards.toml (meaning) + tools/gen/data.toml (documented names) + ids.rs (id <-> constant name)."""

    def __init__(self, repo="/repo"):
        self.std = tomllib.load(open(os.path.join(VERIF, "contracts", "standards.toml"), "rb"))
        data = tomllib.load(open(os.path.join(repo, "tools", "gen", "data.toml"), "rb"))
        ids_text = open(os.path.join(repo, "src", "generated", "ids.rs")).read()
        self.id_of = {m.group(1): int(m.group(2)) for m in re.finditer(r"pub const (\w+): u32 = (\d+);", ids_text)}
        self.name_of_id = {v: k for k, v in self.id_of.items()}
        self.prefixes = {}
        for p in data["prefixes"]:
            self.prefixes[p["prefix"]] = p["names"]
        self.words = {}      # constant NAME / base variant -> documented names
        self.base_words = {}
        for u in data["units"]:
            if u["type"] == "base":
                self.base_words[u["unit"]] = dict(names=u["names"], bias=u.get("prefix_bias", 0))
            else:
                const = u["name"].split("::")[-1]
                self.words[const] = u["names"]
        # code constants (mechanically extracted) decide WHICH standard reading applies; never the meaning itself
        from .tables import collect, parse_conversion
        self.code = {}
        units, _ = collect(repo)
        for u in units:
            c = parse_conversion(u["conversion"])
            if c[0] == "factor":
                self.code[u["name"]] = F(c[1], c[2])
            elif c[0] == "none":
                self.code[u["name"]] = F(1)
            else:
                self.code[u["name"]] = None
        self.scale = {}
        self.off_standard = []
        for name, s in self.std.items():
            if name.startswith('_'):
                continue
            rd = [F(x) for x in s["readings"]]
            c = self.code.get(name)
            if name in ("CELSIUS", "FAHRENHEIT"):
                self.scale[name] = rd[0]
            elif c in rd:
                self.scale[name] = c
            else:
                self.scale[name] = None     # the code uses a non-standard constant (C05 finding): excluded from SI-normalising oracles
                self.off_standard.append(name)

    def dim(self, name):
        return tuple(self.std[name]["dim"])

    def entry_info(self, u):
        """u: "Meter" or numeric id -> (dims tuple, scale Fraction|None, is_offset)"""
        if isinstance(u, str):
            d = [0] * 8
            d[BASE_ORDER.index(u)] = 1
            return tuple(d), F(1), False
        name = self.name_of_id.get(u)
        if name is None:
            return None, None, False
        return self.dim(name), self.scale[name], name in ("CELSIUS", "FAHRENHEIT")

    def si(self, ok):
        """SI reading of a result {"value":{n,d},"unit":[[u,power,prefix]..]} -> (value, dims) or None if an off-standard unit occurs"""
        v = F(int(ok["value"]["n"]), int(ok["value"]["d"]))
        dims = [0] * 8
        for u, power, prefix in ok["unit"]:
            d, s, off = self.entry_info(u)
            if d is None or s is None:
                return None
            v *= (F(10) ** (prefix * power)) * (s ** power)
            for i in range(8):
                dims[i] += d[i] * power
        return v, tuple(dims)


def frac_of(ok):
    return F(int(ok["value"]["n"]), int(ok["value"]["d"]))
