"""E2: bounded stand-ins, witness search and replay against the REAL library (never counted as proof).

Every stand-in states its bound, counts what it ran, and compares with an oracle that is independent of /repo:
Python `fractions.Fraction` arithmetic on expression trees we generate ourselves (so no parser of ours is needed),
and `contracts/standards.toml` for the meaning of units."""

import itertools
import json
import os
import random
import re
from fractions import Fraction as F

from .rac import Rac, Units, frac_of, HarnessError, BASE_ORDER

# ---------------------------------------------------------------------------------------------
# expression trees


class Lit:
    prec = 100

    def __init__(self, text, value):
        self.text, self.value = text, value


class Bin:
    PREC = {"+": 2, "-": 2, "*": 3, "/": 3, "^": 10}

    def __init__(self, op, l, r):
        self.op, self.l, self.r = op, l, r
        self.prec = self.PREC[op]


class DivZero(Exception):
    pass


class NotInt(Exception):
    pass


class TooBig(Exception):
    pass


def ev(e):
    if isinstance(e, Lit):
        return e.value
    a, b = ev(e.l), ev(e.r)
    if e.op == "+":
        return a + b
    if e.op == "-":
        return a - b
    if e.op == "*":
        return a * b
    if e.op == "/":
        if b == 0:
            raise DivZero()
        return a / b
    if e.op == "^":
        if b.denominator != 1:
            raise NotInt()
        if a == 0 and b < 0:
            raise DivZero()
        if abs(b) > 2000:
            raise TooBig()
        return a ** int(b)
    raise ValueError(e.op)


def render(e, style, rnd=None):
    """style: dict(sp=function(kind)->blank string, parens='min'|'full'|'extra')"""
    sp = style["sp"]
    if isinstance(e, Lit):
        return e.text

    def wrap(child, need):
        s = render(child, style, rnd)
        if need or (style["parens"] == "full" and isinstance(child, Bin)):
            inner = sp("in(") + s + sp("in)")
            s = "(" + inner + ")"
            if style["parens"] == "extra":
                s = "(" + sp("in(") + s + sp("in)") + ")"
        return s
    l = wrap(e.l, isinstance(e.l, Bin) and e.l.prec < e.prec)
    r = wrap(e.r, isinstance(e.r, Bin) and e.r.prec <= e.prec)
    if e.op in "+-":
        return l + sp("pm") + e.op + sp("pm") + r
    return l + sp("md") + e.op + sp("md") + r


def style_plain():
    return dict(sp=lambda k: " " if k in ("pm", "md") else "", parens="min")


def style_tight():
    return dict(sp=lambda k: " " if k == "pm" else "", parens="min")


def style_wide(rnd):
    blanks = [" ", "  ", "\t", " \t ", "   "]
    return dict(sp=lambda k: rnd.choice(blanks) if k in ("pm", "md") else rnd.choice(["", " ", "  "]), parens="min")


LITS = [("0", F(0)), ("1", F(1)), ("2", F(2)), ("3", F(3)), ("7", F(7)), ("10", F(10)), ("0.5", F(1, 2)), ("1.25", F(5, 4)), (".75", F(3, 4)),
        ("2e3", F(2000)), ("5e-1", F(1, 2)), ("-2", F(-2)), ("-0.1", F(-1, 10)), ("50%", F(1, 2)), ("12.5%", F(1, 8)), ("007", F(7)), ("3.", F(3)),
        ("123456789012345678901234567890", F(123456789012345678901234567890)), ("0.000000000000000000001", F(1, 10**21))]
EXPS = [("0", F(0)), ("1", F(1)), ("2", F(2)), ("3", F(3)), ("-1", F(-1)), ("-2", F(-2))]


def rand_tree(rnd, depth, ops="+-*/^"):
    if depth == 0 or rnd.random() < 0.25:
        t, v = rnd.choice(LITS)
        return Lit(t, v)
    op = rnd.choice(ops)
    l = rand_tree(rnd, depth - 1, ops)
    if op == "^":
        t, v = rnd.choice(EXPS)
        return Bin(op, l, Lit(t, v))
    return Bin(op, l, rand_tree(rnd, depth - 1, ops))


def all_trees(ops, leaves):
    """all binary trees whose in-order operator sequence is `ops` over the given leaf list"""
    if not ops:
        return [leaves[0]]
    out = []
    for i, op in enumerate(ops):
        for l in all_trees(ops[:i], leaves[:i + 1]):
            for r in all_trees(ops[i + 1:], leaves[i + 1:]):
                out.append(Bin(op, l, r))
    return out


def results_of(ans):
    return ans.get("results")


def single_value(ans):
    """-> ('ok', Fraction, okdict) | ('err', msg) | ('multi', n) | ('panic', msg)"""
    if "panic" in ans:
        return ("panic", ans["panic"])
    if ans.get("timeout"):
        return ("timeout", "no answer within 10 s")
    if "parse_error" in ans:
        return ("err", ans["parse_error"])
    rs = ans.get("results", [])
    if len(rs) != 1:
        return ("multi", len(rs), rs)
    r = rs[0]
    if "ok" in r:
        return ("ok", frac_of(r["ok"]), r["ok"])
    return ("err", r["err"]["msg"], r["err"])


class Report:
    def __init__(self, name, bound):
        self.name, self.bound = name, bound
        self.evaluations = 0
        self.nontrivial = set()
        self.violations = []
        self.all_violations = []
        self.samples = []
        self.known = []

    def ran(self, key, nontrivial=True, sample=None):
        self.evaluations += 1
        if nontrivial:
            self.nontrivial.add(key)
        if sample is not None and len(self.samples) < 6:
            self.samples.append(sample)

    def fail(self, check, **kw):
        # every violation is kept (known findings are filtered by exact input afterwards); only the first 25 new ones are reported
        self.all_violations.append(dict(check=f"{self.name}: {check}", **kw))
        if len(self.violations) < 25:
            self.violations.append(dict(check=f"{self.name}: {check}", **kw))

    def as_dict(self):
        return dict(name=self.name, bound=self.bound, cases=self.evaluations, distinct_nontrivial=len(self.nontrivial), labelled="bounded (not proof)",
                    violations=len(self.violations), samples=self.samples)


def expect_value(rep, rac, q, expected, key=None, unit_empty=True):
    """expected: Fraction | 'err'"""
    a = rac._ask_chunk_timed([{"cmd": "query", "q": q}], 10.0)
    if a is None:
        # the oracle knows the answer at once; the real library does not come back (it is killed and restarted, the run goes on)
        rep.ran(key or q, True)
        rep.fail("no answer within 10 s", query=q, expected=str(expected), actual="no answer (evaluation does not terminate, or takes time out of all proportion to the input)")
        return ("timeout",)
    st = single_value(a[0])
    rep.ran(key or q, True, dict(query=q, expected=str(expected), got=str(st[1]) if st[0] in ("ok", "err") else st[0]))
    if expected == "err":
        if st[0] != "err":
            rep.fail("expected an error, got a value", query=q, expected="error", actual=str(st[1]) if len(st) > 1 else st[0])
        return st
    if st[0] != "ok":
        rep.fail("expected a value", query=q, expected=str(expected), actual=f"{st[0]}: {st[1] if len(st) > 1 else ''}")
    elif st[1] != expected:
        rep.fail("wrong value", query=q, expected=str(expected), actual=str(st[1]))
    elif unit_empty and st[2]["unit"]:
        rep.fail("plain numbers produced a unit", query=q, expected="no unit", actual=st[2]["unit_str"])
    return st


# ---------------------------------------------------------------------------------------------
# per-property stand-ins


def c01(rac, units, tier, seed):
    depth, n = (4, 1500) if tier == "quick" else (6, 8000)
    rep = Report("C01 eval() OPERATION fold + NUMBER/PERCENTAGE arms", f"random expression trees to depth {depth} over a {len(LITS)}-literal pool ({n} trees, seed {seed}) + all operator pairs; Fraction oracle")
    rnd = random.Random(seed)
    # all operator pairs with a fixed literal triple, every parenthesisation
    for ops in itertools.product("+-*/^", repeat=2):
        for tree in all_trees(list(ops), [Lit("7", F(7)), Lit("2", F(2)), Lit("3", F(3))]):
            q = render(tree, style_plain())
            try:
                exp = ev(tree)
            except (DivZero, NotInt):
                exp = "err"
            except TooBig:
                continue
            expect_value(rep, rac, q, exp)
    for i in range(n):
        tree = rand_tree(rnd, depth)
        q = render(tree, style_plain() if i % 3 else style_tight())
        try:
            exp = ev(tree)
        except (DivZero, NotInt):
            exp = "err"
        except TooBig:
            continue
        expect_value(rep, rac, q, exp)
    # integer powers of small bases, negative / odd / even exponents, bases written as expressions so that the sign is part of the value
    for b in [F(-3), F(-2), F(-1), F(-1, 2), F(0), F(1, 2), F(1), F(2), F(3), F(-3, 2)]:
        for e in range(-5, 6):
            bs = f"({b.numerator} / {b.denominator})" if b >= 0 else f"(0 - {-b.numerator} / {b.denominator})"
            es = str(e) if e >= 0 else f"(0 - {-e})"
            exp = "err" if (b == 0 and e < 0) else b ** e
            expect_value(rep, rac, f"{bs} ^ {es}", exp)
            expect_value(rep, rac, f"1 + 2 * {bs} ^ {es}", "err" if exp == "err" else 1 + 2 * exp)
    for q, exp in [("0 ^ -1", "err"), ("1 / 0", "err"), ("0 ^ 0", F(1)), ("1 / (2 - 2)", "err"), ("(1 - 1) ^ -2", "err"), ("200%", F(2)), ("50% * 50%", F(1, 4)), ("2 ^ 0.5", "err")]:
        expect_value(rep, rac, q, exp)
    return [rep]


def c06(rac, units, tier, seed):
    maxlen = 4 if tier == "quick" else 5
    rep = Report("C06 grammar: precedence / associativity / grouping / blanks", f"all operator sequences of length <= {maxlen} over + - * / ^ (length 5: 1000 sampled) x every parenthesisation x 3 (quick) / 5 (thorough) layouts incl. leading/trailing blanks; `to` and function-argument families; Fraction oracle")
    rnd = random.Random(seed)
    pool = [Lit("7", F(7)), Lit("2", F(2)), Lit("3", F(3)), Lit("5", F(5)), Lit("4", F(4)), Lit("11", F(11))]
    expo = [Lit("2", F(2)), Lit("3", F(3)), Lit("1", F(1)), Lit("2", F(2)), Lit("0", F(0)), Lit("2", F(2))]
    cases = []
    for L in range(1, maxlen + 1):
        seqs = list(itertools.product("+-*/^", repeat=L))
        if L >= 5:
            seqs = random.Random(seed + L).sample(seqs, 1000)
        for ops in seqs:
            leaves = [pool[0]] + [expo[i + 1] if op == "^" else pool[i + 1] for i, op in enumerate(ops)]
            for tree in all_trees(list(ops), leaves):
                try:
                    exp = ev(tree)
                except (DivZero, NotInt):
                    exp = "err"
                except TooBig:
                    continue
                styles = [style_plain(), style_wide(rnd), dict(sp=lambda k: " " if k in ("pm", "md") else "", parens="extra")]
                if tier != "quick" or L <= 3:
                    styles += [style_tight(), dict(sp=lambda k: " ", parens="full")]
                for style in styles:
                    q = render(tree, style)
                    cases.append((rnd.choice(["", " ", "  ", "\t"]) + q + rnd.choice(["", " ", "  ", "\t"]), exp, (ops, q)))
    ans = rac.ask_many_guarded([{"cmd": "query", "q": q} for q, _, _ in cases], chunk=500, per_cmd_s=5.0)
    for (q, exp, key), a in zip(cases, ans):
        if a.get("skipped"):
            continue
        st = single_value(a)
        rep.ran(key, True, dict(query=q, expected=str(exp)) if len(rep.samples) < 6 and len(key[0]) >= 3 else None)
        if exp == "err":
            if st[0] != "err":
                rep.fail("expected an error, got a value", query=q, expected="error", actual=str(st[1]) if len(st) > 1 else st[0])
        elif st[0] != "ok":
            rep.fail("expected a value", query=q, expected=str(exp), actual=f"{st[0]}: {st[1] if len(st) > 1 else ''}")
        elif st[1] != exp:
            rep.fail("wrong value", query=q, expected=str(exp), actual=str(st[1]))
    # left/right/nested/first/last parenthesised operands, function arguments, `to`
    fam = [
        ("(1 + 2)", F(3)), ("((1 + 2))", F(3)), ("( ( 1 + 2 ) )", F(3)), ("3 * (1 + 2)", F(9)), ("(1 + 2) * 3", F(9)), ("(1 + 2) * (3 + 4)", F(21)),
        ("2 * (3 + (4 - 1)) * 5", F(60)), ("1 + (2)", F(3)), ("(1) + 2", F(3)), ("2*(3)", F(6)), ("(2)*3", F(6)), ("2 ^ (1 + 1)", F(4)), ("(1 + 1) ^ 2", F(4)),
        ("round(1.5)", F(2)), ("round( 1.5 )", F(2)), ("round(1.5 , 0)", F(2)), ("round(1.26,1)", F(13, 10)), ("round( 1.26 , 1 )", F(13, 10)), ("round((1 + 1.5))", F(3)),
        ("round(2.567, 1 + 1)", F(257, 100)), ("1 + round(2.5)", F(4)), ("round(2.5) * 2", F(6)), ("floor((7 / 2))", F(3)), ("2 * floor(3.7) + 1", F(7)),
    ]
    for q, exp in fam:
        expect_value(rep, rac, q, exp)
    # every blank layout around the arguments of a call: blanks after `(`, before `,`, after `,`, before `)` (0, 1 or 2 blanks / a tab each)
    blanks = ["", " ", "  ", "\t"]
    for a1, a2, val in [("1.234", "2", F(123, 100)), ("(1 + 2) * 1.234", "1 + 1", F(37, 10)), ("12345.678", "0 - 2", F(12300)), ("2.5", "0", F(3))]:
        for b1, b2, b3, b4 in itertools.product(blanks, repeat=4):
            expect_value(rep, rac, f"round({b1}{a1}{b2},{b3}{a2}{b4})", val)
    for b1, b2 in itertools.product(blanks, repeat=2):
        expect_value(rep, rac, f"2 * floor({b1}7 / 2{b2}) + 1", F(7))
        expect_value(rep, rac, f"({b1}1 + 2{b2}) * ({b2}3 + 4{b1})", F(21))
        expect_value(rep, rac, f"(({b1}1 + 2{b2}){b1})", F(3))
    for q, exp_si, dim in [("1km + 500m to m", F(1500), "Meter"), ("1 + 2 to m", F(3), "Meter"), ("2 * 3 m to cm", F(600), "Meter"), ("1km + 2km * 3 to m", F(7000), "Meter"),
                           ("(1km + 500m) to m", F(1500), "Meter"), ("1km  +  500m   to   m", F(1500), "Meter")]:
        st = single_value(rac.query(q))
        rep.ran(q, True)
        if st[0] != "ok" or st[1] != exp_si or [u[0] for u in st[2]["unit"]] != [dim]:
            rep.fail("`to` binds loosest", query=q, expected=f"{exp_si} {dim}", actual=str(st[1:2]))
    return [rep]


def c10(rac, units, tier, seed):
    rep = Report("C10 FN_CALL arm of eval() (argument evaluation and dispatch)", "grid of rationals n/d (|n|<=40, d in 1..8 quick; |n|<=200, d<=16 thorough) x floor/ceil/round, round(x,n) n in -6..6, units carried, arity errors")
    import math
    N, D = (40, 8) if tier == "quick" else (200, 16)

    def rhaz(x):
        return math.floor(x + F(1, 2)) if x >= 0 else -math.floor(-x + F(1, 2))
    xs = sorted({F(n, d) for n in range(-N, N + 1) for d in range(1, D + 1)})
    for x in xs:
        lit = f"({x.numerator} / {x.denominator})"
        expect_value(rep, rac, f"floor({lit})", F(math.floor(x)))
        expect_value(rep, rac, f"ceil({lit})", F(math.ceil(x)))
        expect_value(rep, rac, f"round({lit})", F(rhaz(x)))
    rnd = random.Random(seed)
    for x in rnd.sample(xs, 150 if tier == "quick" else 1500):
        for n in range(-6, 7):
            lit = f"({x.numerator} / {x.denominator})"
            xx = x * 1000
            exp = F(rhaz(xx * F(10) ** n)) / F(10) ** n
            expect_value(rep, rac, f"round({lit} * 1000, {n})", exp)
    for q, val, unit in [("floor(2.7m)", F(2), "Meter"), ("ceil(2.2kg)", F(3), "KiloGram"), ("round(2.5s)", F(3), "Second"), ("round(1.26m, 1)", F(13, 10), "Meter"), ("floor(-2.5m)", F(-3), "Meter")]:
        st = single_value(rac.query(q))
        rep.ran(q)
        if st[0] != "ok" or st[1] != val or [u[0] for u in st[2]["unit"]] != [unit]:
            rep.fail("unit carried through", query=q, expected=f"{val} {unit}", actual=str(st[1:2]))
    for q in ["floor()", "floor(1, 2)", "ceil()", "ceil(1, 2)", "round()", "round(1, 2, 3)"]:
        expect_value(rep, rac, q, "err")
    return [rep]


def _unit_words(units, exclude_offsets=True):
    """[(word, NAME|base)] first documented name of every unit usable in SI-normalising oracles"""
    out = []
    for base, info in units.base_words.items():
        out.append((info["names"][0] if base != "KiloGram" else "kg", base))
    for name, names in units.words.items():
        if units.scale.get(name) is None:
            continue
        if exclude_offsets and name in ("CELSIUS", "FAHRENHEIT"):
            continue
        w = [n for n in names if re.fullmatch(r"[A-Za-z]+", n)]
        if w:
            out.append((w[0], name))
    return out


def _dims_of_name(units, nm):
    if nm in BASE_ORDER:
        d = [0] * 8
        d[BASE_ORDER.index(nm)] = 1
        return tuple(d)
    return units.dim(nm)


def _scale_of_name(units, nm):
    return F(1) if nm in BASE_ORDER else units.scale[nm]


def _rand_unit_expr(rnd, units, words, n):
    """unit expression of n factors: returns (text, dims, scale); `words` are (spelling, NAME, prefix exponent) the tool reads as one unit"""
    dims = [0] * 8
    scale = F(1)
    parts = []
    div = False
    used = set()
    for i in range(n):
        w, nm, pe = rnd.choice(words)
        if nm in used:
            continue
        used.add(nm)
        p = rnd.choice([1, 1, 1, 2, 3])
        sign = -1 if div else 1
        txt = w + (f"^{p}" if p != 1 else "")
        if parts:
            if not div and rnd.random() < 0.35:
                div = True
                sign = -1
                parts.append("/")
            else:
                parts.append("*")
        parts.append(txt)
        d = _dims_of_name(units, nm)
        for j in range(8):
            dims[j] += d[j] * p * sign
        scale *= (F(10) ** pe * _scale_of_name(units, nm)) ** (p * sign)
    return "".join(parts), tuple(dims), scale


_BASE_SPELL = {"KiloGram": "kg", "Candela": "cd", "Meter": "m", "Second": "s", "Ampere": "A", "Kelvin": "K", "Mole": "mol", "Byte": "B"}


def _spell_parts(rnd, units, by_name, parts):
    """parts: [(NAME, power)] -> (text, dims, scale) with a random accepted spelling (plain or SI-prefixed) per unit; powers written as ^p"""
    dims = [0] * 8
    scale = F(1)
    txt = []
    for nm, pw in parts:
        w, pe = rnd.choice(by_name[nm])
        txt.append(w + (f"^{pw}" if pw != 1 else ""))
        d = _dims_of_name(units, nm)
        for j in range(8):
            dims[j] += d[j] * pw
        scale *= (F(10) ** pe * _scale_of_name(units, nm)) ** pw
    return "*".join(txt), tuple(dims), scale


def _fill_dims(dims_have, dims_want):
    """base-unit factors (text) that turn dims_have into dims_want"""
    out = []
    for j in range(8):
        d = dims_want[j] - dims_have[j]
        if d:
            out.append(f"{_BASE_SPELL[BASE_ORDER[j]]}^{d}" if d != 1 else _BASE_SPELL[BASE_ORDER[j]])
    return "*".join(out)


def _by_name(words):
    by = {}
    for w, nm, pe in words:
        by.setdefault(nm, []).append((w, pe))
    return by


def _ok_words(rac, words):
    """(spelling, NAME, prefix exponent) for every plain and SI-prefixed spelling the tool reads as exactly that single unit with that
    prefix (how ambiguous spellings are resolved is C05's business, not this stand-in's)"""
    cands = []
    for w, nm in words:
        cands.append((w, nm, 0))
        if nm != "KiloGram":
            for pref, pe in (("k", 3), ("m", -3), ("M", 6)):
                cands.append((pref + w, nm, pe))
    answers = rac.ask_many([{"cmd": "compound", "s": c[0]} for c in cands])
    good = []
    for (w, nm, pe), ans in zip(cands, answers):
        if "ok" not in ans or len(ans["ok"]["unit"]) != 1:
            continue
        u, power, prefix = ans["ok"]["unit"][0]
        want = nm if nm in BASE_ORDER else None
        if power != 1 or prefix != pe:
            continue
        if (isinstance(u, str) and u == nm) or (not isinstance(u, str) and nm not in BASE_ORDER):
            good.append((w, nm, pe))
    return good


def c02(rac, units, tier, seed):
    n = 600 if tier == "quick" else 8000
    rep = Report("C02 OP_CAST arm of eval() and add/sub dispatch", f"{n} random pairs of unit expressions (<=3 factors, prefixes, powers) + the named cancelling pairs; verdict and value from standards.toml")
    rnd = random.Random(seed)
    words = _ok_words(rac, _unit_words(units))
    named = [("1J/N", "1m", True), ("1V*A", "1W", True), ("1C/s", "1A", True), ("1T", "1kg/s^2/A", None), ("1N*m", "1J", True), ("1W*s", "1J", True), ("1Pa*m^2", "1N", True),
             ("1J", "1N", False), ("1m", "1s", False), ("1m^2", "1m", False), ("1kg", "1N", False), ("1Hz", "1s", None)]
    # quantities with only negative powers on the left of `to` (a unit without numerator is not "no unit")
    for q, exp in [("(1 / 2 s) to m", "err"), ("(10 / 1 s) to kg", "err"), ("(1 / 1 m^2) to s", "err"), ("(3 / 1 s / 1 s) to J", "err"), ("(120 / 1 min) to 1/s", F(2)), ("(1 / 1 ms) to 1/s", F(1000)),
                   ("(1 / 1 km^2) to 1/m^2", F(1, 10 ** 6)), ("(5 / 1 s) to 1/m", "err"), ("(1 / 1 s) + 1 m", "err")]:
        expect_value(rep, rac, q, exp, unit_empty=False)
    for a, b, same in named:
        if same is None:
            continue
        for op in ("+", "-", "to"):
            q = f"{a} {op} {b}" if op != "to" else f"{a} to {b[1:]}"
            st = single_value(rac.query(q))
            rep.ran(q)
            if same and st[0] != "ok":
                rep.fail("commensurable units refused", query=q, expected="a value", actual=str(st[:2]))
            if not same and st[0] == "ok":
                rep.fail("incommensurable units accepted", query=q, expected="an error", actual=str(st[1]))
    for i in range(n):
        ta, da, sa = _rand_unit_expr(rnd, units, words, rnd.choice([1, 2, 3]))
        if rnd.random() < 0.5:
            tb, db, sb = _rand_unit_expr(rnd, units, words, rnd.choice([1, 2, 3]))
        else:
            # a commensurable partner: same dims spelled with base units
            db, sb = da, F(1)
            tb = "*".join(f"{'kg' if BASE_ORDER[j] == 'KiloGram' else {'Candela': 'cd', 'Meter': 'm', 'Second': 's', 'Ampere': 'A', 'Kelvin': 'K', 'Mole': 'mol', 'Byte': 'B'}[BASE_ORDER[j]]}^{da[j]}" for j in range(8) if da[j] != 0)
            if not tb:
                continue
        if not any(da) or not any(db):
            continue
        x, y = F(rnd.randint(1, 9)), F(rnd.randint(1, 9), rnd.choice([1, 2, 4]))
        op = rnd.choice(["+", "-", "to"])
        ys = f"({y.numerator} / {y.denominator})"
        if op == "to":
            q = f"{x} * 1{ta} to {tb}"
            exp = x * sa / sb
        else:
            q = f"{x} * 1{ta} {op} {ys} * 1{tb}"
            exp = x + y * sb / sa if op == "+" else x - y * sb / sa
        st = single_value(rac.query(q))
        rep.ran((da == db, op, q), True, dict(query=q, same_dims=da == db))
        if da == db:
            if st[0] != "ok":
                rep.fail("commensurable units refused", query=q, expected=str(exp), actual=str(st[:2]))
            elif st[1] != exp:
                rep.fail("wrong converted value", query=q, expected=str(exp), actual=str(st[1]))
        else:
            if st[0] == "ok":
                rep.fail("incommensurable units accepted", query=q, expected="error", actual=str(st[1]))
    for q, val, unit in [("1 + 2m", F(3), "Meter"), ("2m + 1", F(3), "Meter"), ("1 - 2m", F(-1), "Meter"), ("2kg - 1", F(1), "KiloGram")]:
        st = single_value(rac.query(q))
        rep.ran(q)
        if st[0] != "ok" or st[1] != val or [u[0] for u in st[2]["unit"]] != [unit]:
            rep.fail("plain number adopts the unit", query=q, expected=f"{val} {unit}", actual=str(st[:2]))
    return [rep]


def c03(rac, units, tier, seed):
    n = 300 if tier == "quick" else 4000
    rep = Report("C03 conversions through the OP_CAST arm", f"{n} random commensurable triples: round trip, via, linearity, prefix = power of ten, product/power law")
    rnd = random.Random(seed)
    # an SI prefix is exactly its power of ten, also under a power: prefix x power beyond the range of single prefixes, on either side
    pre = {"G": 9, "T": 12, "f": -15, "n": -9, "k": 3, "m": -3, "Y": 24, "y": -24}
    for pf, e in pre.items():
        for pw in (2, 3, -2, -3):
            for x in (F(1), F(5)):
                sh = e * pw
                expect_value(rep, rac, f"{x} m^{pw} to {pf}m^{pw}", x / F(10) ** sh, unit_empty=False)
                expect_value(rep, rac, f"{x} {pf}m^{pw} to m^{pw}", x * F(10) ** sh, unit_empty=False)
                expect_value(rep, rac, f"({x} m^{pw} to {pf}m^{pw}) to m^{pw}", x, unit_empty=False)
    words = _ok_words(rac, _unit_words(units))
    by_dim = {}
    for w, nm, pe in words:
        if pe == 0:
            by_dim.setdefault(_dims_of_name(units, nm), []).append((w, nm))
    groups = [g for g in by_dim.values() if len(g) >= 2]

    def val(q):
        st = single_value(rac.query(q))
        return st[1] if st[0] == "ok" else None
    for i in range(n):
        g = rnd.choice(groups)
        (a, na), (b, nb), (c, nc) = rnd.choice(g), rnd.choice(g), rnd.choice(g)
        p = rnd.choice([1, 1, 2, 3, -1, -2])
        ua, ub, uc = (f"{a}^{p}", f"{b}^{p}", f"{c}^{p}") if p != 1 else (a, b, c)
        x = F(rnd.randint(-50, 50), rnd.choice([1, 3, 7, 10]))
        k = F(rnd.randint(2, 9))
        xs = f"({x.numerator} / {x.denominator})"
        direct = val(f"{xs} * 1{ua} to {uc}")
        there = val(f"{xs} * 1{ua} to {ub}")
        rep.ran((a, b, c, p), True, dict(query=f"{xs} * 1{ua} to {uc}", got=str(direct)))
        if direct is None or there is None:
            rep.fail("commensurable conversion refused", query=f"{xs} * 1{ua} to {ub} / {uc}", expected="values", actual="error")
            continue
        exp = x * (_scale_of_name(units, na) / _scale_of_name(units, nc)) ** p
        if direct != exp:
            rep.fail("conversion factor", query=f"{xs} * 1{ua} to {uc}", expected=str(exp), actual=str(direct))
        back = val(f"({there.numerator} / {there.denominator}) * 1{ub} to {ua}")
        if back != x:
            rep.fail("round trip", query=f"{xs} {ua} -> {ub} -> {ua}", expected=str(x), actual=str(back))
        via = val(f"({there.numerator} / {there.denominator}) * 1{ub} to {uc}")
        if via != direct:
            rep.fail("via an intermediate unit", query=f"{xs} {ua} -> {ub} -> {uc}", expected=str(direct), actual=str(via))
        scaled = val(f"{k} * {xs} * 1{ua} to {uc}")
        if scaled != k * direct:
            rep.fail("linearity", query=f"{k} * {xs} * 1{ua} to {uc}", expected=str(k * direct), actual=str(scaled))
    # compound units: every unit re-spelled with another prefix, one unit shared by both sides with DIFFERENT powers, the rest filled with base units
    by_name = _by_name(words)
    names_pool = [nm for nm in by_name if nm not in ("CELSIUS", "FAHRENHEIT")]
    for i in range(n):
        k = rnd.choice([1, 2, 2, 3])
        nms = rnd.sample(names_pool, k)
        parts = [(nm, rnd.choice([1, 1, 2, 3, -1, -2])) for nm in nms]
        ta, da, sa = _spell_parts(rnd, units, by_name, parts)
        mode = rnd.choice(["respell", "shared", "shared"])
        if mode == "respell":
            tb, db, sb = _spell_parts(rnd, units, by_name, parts)
        else:
            nm0, p0 = parts[0]
            p1 = rnd.choice([q for q in (-2, -1, 1, 2, 3) if q != p0])
            tb, db, sb = _spell_parts(rnd, units, by_name, [(nm0, p1)])
        fill = _fill_dims(db, da)
        used_b = {nm0} if mode != "respell" else {nm for nm, _ in parts}
        if any(BASE_ORDER[j] in used_b for j in range(8) if da[j] != db[j]):
            continue    # the filler would write a base unit a second time with another prefix (refused by design: one prefix per unit)
        if fill:
            tb = tb + "*" + fill
        x = F(rnd.randint(1, 40), rnd.choice([1, 3, 8]))
        q = f"({x.numerator} / {x.denominator}) * 1{ta} to {tb}"
        exp = x * sa / sb
        got = val(q)
        rep.ran(("compound", q), True, dict(query=q, expected=str(exp)) if i < 3 else None)
        if got is None:
            rep.fail("commensurable compound conversion refused", query=q, expected=str(exp), actual="error")
        elif got != exp:
            rep.fail("compound conversion: product/power of the individual factors", query=q, expected=str(exp), actual=str(got))
    for pw, pe in [("k", 3), ("m", -3), ("M", 6), ("G", 9), ("n", -9), ("c", -2), ("d", -1), ("h", 2), ("da", 1), ("T", 12), ("p", -12), ("f", -15), ("P", 15)]:
        for u in ("m", "s", "J", "W", "N"):
            got = val(f"1 {pw}{u} to {u}")
            rep.ran((pw, u))
            if got != F(10) ** pe:
                rep.fail("SI prefix is its power of ten", query=f"1 {pw}{u} to {u}", expected=str(F(10) ** pe), actual=str(got))
    return [rep]


def c04(rac, units, tier, seed):
    n = 400 if tier == "quick" else 6000
    rep = Report("C04 Compound::mul / reconstruct / eval::{mul,div,pow} through eval()", f"{n} random products, quotients and integer powers of quantities with compound units; SI value and dimension vector from standards.toml")
    rnd = random.Random(seed)
    words = _ok_words(rac, _unit_words(units))
    for i in range(n):
        ta, da, sa = _rand_unit_expr(rnd, units, words, rnd.choice([1, 2, 3]))
        tb, db, sb = _rand_unit_expr(rnd, units, words, rnd.choice([1, 2]))
        x, y = F(rnd.randint(1, 12), rnd.choice([1, 2, 5])), F(rnd.randint(1, 12), rnd.choice([1, 3]))
        kind = rnd.choice(["*", "/", "^", "**"])
        xs, ys = f"({x.numerator} / {x.denominator})", f"({y.numerator} / {y.denominator})"
        if not any(da):
            sa = F(1)
        if not any(db):
            sb = F(1)
        A, B = (f"{xs} * 1{ta}" if any(da) else xs), (f"{ys} * 1{tb}" if any(db) else ys)
        if kind == "*":
            q, ev_, ed = f"({A}) * ({B})", x * sa * y * sb, tuple(a + b for a, b in zip(da, db))
        elif kind == "/":
            q, ev_, ed = f"({A}) / ({B})", (x * sa) / (y * sb), tuple(a - b for a, b in zip(da, db))
        else:
            e = rnd.choice([0, 1, 2, 3, -1, -2])
            q, ev_, ed = f"({A}) ^ {e}", (x * sa) ** e, tuple(a * e for a in da)
        st = single_value(rac.query(q))
        rep.ran((kind, q), True, dict(query=q))
        if st[0] != "ok":
            rep.fail("product/quotient/power refused", query=q, expected=f"{ev_} dims {ed}", actual=str(st[:2]))
            continue
        si = units.si(st[2])
        if si is None:
            continue
        if si[0] != ev_ or si[1] != ed:
            rep.fail("SI value / dimensions", query=q, expected=f"{ev_} dims {ed}", actual=f"{si[0]} dims {si[1]} ({st[2]['unit_str']})")
    for q in ["(2m)^2", "(2m)^0", "(3 m/s)^2", "(2kg)^-1"]:
        rep.ran(q)
    return [rep]


def c13(rac, units, tier, seed):
    n = 250 if tier == "quick" else 4000
    rep = Report("C13 field laws through eval()", f"{n} random triples of commensurable quantities (literals over the vocabulary, and shipped facts): commutativity, associativity, distributivity, a-a, a/a compared after SI normalisation")
    rnd = random.Random(seed)
    words = _ok_words(rac, _unit_words(units))
    by_dim = {}
    for w, nm, pe in words:
        if pe == 0:
            by_dim.setdefault(_dims_of_name(units, nm), []).append((w, nm))
    groups = [g for g in by_dim.values() if len(g) >= 2]
    facts = ["speed of light", "mass of earth", "mass of jupiter", "mercury orbit distance"]

    def si(q):
        st = single_value(rac.query(q))
        if st[0] != "ok":
            return ("err", st[1] if len(st) > 1 else "")
        s = units.si(st[2])
        return s if s is not None else ("skip",)

    def same(rep, law, q1, q2):
        a, b = si(q1), si(q2)
        rep.ran((law, q1), True, dict(law=law, lhs=q1, rhs=q2))
        if a == ("skip",) or b == ("skip",):
            return
        if a != b:
            rep.fail(law, query=f"{q1}  vs  {q2}", expected=str(a), actual=str(b))
    for i in range(n):
        g = rnd.choice(groups)
        qs = []
        for _ in range(3):
            w, nm = rnd.choice(g)
            v = F(rnd.randint(1, 20), rnd.choice([1, 2, 3]))
            qs.append(f"({v.numerator} / {v.denominator}) * 1{w}")
        a, b, c = qs
        same(rep, "a+b = b+a", f"({a}) + ({b})", f"({b}) + ({a})")
        same(rep, "a*b = b*a", f"({a}) * ({b})", f"({b}) * ({a})")
        same(rep, "(a+b)+c = a+(b+c)", f"(({a}) + ({b})) + ({c})", f"({a}) + (({b}) + ({c}))")
        same(rep, "(a*b)*c = a*(b*c)", f"(({a}) * ({b})) * ({c})", f"({a}) * (({b}) * ({c}))")
        same(rep, "a*(b+c) = a*b+a*c", f"({a}) * (({b}) + ({c}))", f"({a}) * ({b}) + ({a}) * ({c})")
        z = si(f"({a}) - ({a})")
        if z not in (("skip",),) and (z[0] != 0):
            rep.fail("a-a = 0", query=f"({a}) - ({a})", expected="0", actual=str(z))
        o = si(f"({a}) / ({a})")
        if o not in (("skip",),) and o != (F(1), (0,) * 8):
            rep.fail("a/a = 1 (dimensionless)", query=f"({a}) / ({a})", expected="1", actual=str(o))
    # compound units with powers, each operand spelled with other prefixes (km^2 + m^2, g/cm^3 + kg/m^3)
    by_name = _by_name(words)
    names_pool = [nm for nm in by_name if nm not in ("CELSIUS", "FAHRENHEIT")]
    for i in range(n):
        nms = rnd.sample(names_pool, rnd.choice([1, 1, 2]))
        parts = [(nm, rnd.choice([1, 2, 3, -1, -2, 2])) for nm in nms]
        qs = []
        for _ in range(3):
            t, _d, _s = _spell_parts(rnd, units, by_name, parts)
            v = F(rnd.randint(1, 20), rnd.choice([1, 2, 3])) if rnd.random() > 0.15 else F(0)   # exact zeros too: "zero adopts the other unit" shortcuts
            qs.append(f"({v.numerator} / {v.denominator}) * 1{t}")
        a, b, c = qs
        same(rep, "a+b = b+a (compound, prefixes)", f"({a}) + ({b})", f"({b}) + ({a})")
        same(rep, "(a+b)+c = a+(b+c) (compound, prefixes)", f"(({a}) + ({b})) + ({c})", f"({a}) + (({b}) + ({c}))")
        same(rep, "a*(b+c) = a*b+a*c (compound, prefixes)", f"({a}) * (({b}) + ({c}))", f"({a}) * ({b}) + ({a}) * ({c})")
        z = si(f"({a}) - ({a})")
        if z not in (("skip",),) and z[0] != "err" and z[0] != 0:
            rep.fail("a-a = 0", query=f"({a}) - ({a})", expected="0", actual=str(z))
    for f in facts:
        same(rep, "fact: a*b = b*a", f"({f}) * 2m", f"2m * ({f})")
        o = si(f"({f}) / ({f})")
        rep.ran(("fact a/a", f))
        if o[0] == "err":
            continue
        if o not in (("skip",),) and o != (F(1), (0,) * 8):
            rep.fail("fact: a/a = 1", query=f"({f}) / ({f})", expected="1", actual=str(o))
    return [rep]


STANDINS = {"C01": c01, "C06": c06, "C10": c10, "C02": c02, "C03": c03, "C04": c04, "C13": c13}


# ---------------------------------------------------------------------------------------------
# C12 / C11: conformance of the trusted leaves (peek / peek2 / step, the str model, the syntree::Builder shim) and the
# unverified drivers (eval(), Db::lookup, Display) on the real code

TOKEN_ALPHABET = ["1", "23", "0.5", ".5", "1e3", "2e-2", "-", "+", "*", "/", "^", "**", "(", ")", "{", "}", ",", "%", " ", "  ", "\t", "to", "as", "in",
                  "m", "km", "kg", "s", "°C", "µm", "Ω", "speed", "of", "light", "round", "floor", "x1", "é", "\\", "\\}", "€", "𝛑", "=", "#", ".", "e", "-1", "+2", "\n"]


def _lex_parse_check(rep, rac, strings):
    cmds = []
    for s in strings:
        cmds.append({"cmd": "lex", "s": s})
        cmds.append({"cmd": "parse", "s": s})
    ans = rac.ask_many_guarded(cmds, chunk=400, per_cmd_s=5.0)
    for i, s in enumerate(strings):
        lx, pr = ans[2 * i], ans[2 * i + 1]
        if lx.get("skipped") or pr.get("skipped"):
            continue
        b = s.encode("utf-8")
        rep.ran(s, True, dict(input=s, tokens=len(lx.get("tokens", []))))
        if lx.get("timeout") or pr.get("timeout"):
            rep.fail("lexer / parser did not terminate (no answer within 5 s for a short input)", query=s, expected="tokens and a tree", actual="no answer", cmd={"cmd": "lex", "s": s})
            continue
        if "panic" in lx or lx.get("nontermination"):
            rep.fail("lexer panicked or did not terminate", query=s, expected="tokens", actual=json.dumps(lx)[:200])
            continue
        toks = lx["tokens"]
        pos = 0
        bad = None
        spans = []
        for ln, kind in toks:
            if ln < 1:
                bad = "empty token"
            spans.append((pos, pos + ln, kind))
            pos += ln
            if pos > len(b) or (pos < len(b) and (b[pos] & 0xC0) == 0x80):
                bad = bad or f"token ends at byte {pos}, not a character boundary inside the input"
        if pos != len(b):
            bad = bad or f"tokens cover {pos} of {len(b)} bytes"
        if bad:
            rep.fail("lexer: " + bad, query=s, expected="non-empty tokens covering the input exactly on character boundaries", actual=json.dumps(toks)[:300], cmd={"cmd": "lex", "s": s}, raw=lx)
            continue
        if "panic" in pr or "tree_error" in pr:
            rep.fail("parser failed", query=s, expected="a tree", actual=json.dumps(pr)[:200])
            continue
        leaves = [(st, en, kind) for (_, kind, st, en, has) in pr["nodes"] if not has and en > st]
        if leaves != spans:
            rep.fail("tree leaves differ from the token sequence", query=s, expected=json.dumps(spans)[:300], actual=json.dumps(leaves)[:300], cmd={"cmd": "parse", "s": s}, raw=pr)


def c12(rac, units, tier, seed):
    k = 3 if tier == "quick" else 4
    rep = Report("C12 trusted leaves (peek/peek2/step, str model, builder shim) conformance on the real lexer/parser",
                 f"all concatenations of <= {k} pieces from a {len(TOKEN_ALPHABET)}-piece alphabet (ASCII, 2/3/4-byte characters, escapes) sampled to a cap + seeded random strings up to 40 pieces; tokens must tile the input, leaves must equal tokens")
    rnd = random.Random(seed)
    strings = [""]
    for L in range(1, k + 1):
        allc = itertools.product(TOKEN_ALPHABET, repeat=L)
        if L <= 2:
            strings += ["".join(c) for c in allc]
        else:
            cap = 6000 if tier == "quick" else 40000
            total = len(TOKEN_ALPHABET) ** L
            pick = set(rnd.sample(range(total), min(cap, total)))
            strings += ["".join(c) for i, c in enumerate(allc) if i in pick]
    for _ in range(1500 if tier == "quick" else 20000):
        strings.append("".join(rnd.choice(TOKEN_ALPHABET) for _ in range(rnd.randint(4, 40))))
    for _ in range(300 if tier == "quick" else 5000):
        strings.append("".join(chr(rnd.choice([rnd.randint(32, 126), rnd.randint(0xA0, 0x2FF), rnd.randint(0x2000, 0x2BFF), rnd.randint(0x1F300, 0x1F6FF), 9, 10])) for _ in range(rnd.randint(1, 24))))
    # number-shaped strings, exhaustively: every string of <= 4 characters over the characters consume_number looks at
    for L in range(1, 5):
        strings += ["".join(c) for c in itertools.product(["1", "0", "e", "E", "+", "-", ".", "x", " "], repeat=L)]
    strings = list(dict.fromkeys(strings))
    _lex_parse_check(rep, rac, strings)
    return [rep]


def c11(rac, units, tier, seed, profile="debug"):
    k = 2 if tier == "quick" else 3
    rep = Report(f"C11 eval() driver / Db::lookup / Display under catch_unwind ({profile} profile)",
                 f"token soups: all sequences of <= {k} pieces from a {len(TOKEN_ALPHABET)}-piece alphabet (capped) + seeded random soups up to 40 pieces + random Unicode; every result a displayable value or an error whose range lies in the input on character boundaries")
    rnd = random.Random(seed + 11)
    strings = [""]
    for L in range(1, k + 1):
        allc = list(itertools.product(TOKEN_ALPHABET, repeat=L))
        if len(allc) > 30000:
            allc = rnd.sample(allc, 30000)
        strings += ["".join(c) for c in allc]
    for _ in range(2500 if tier == "quick" else 30000):
        strings.append(" ".join(rnd.choice(TOKEN_ALPHABET) for _ in range(rnd.randint(2, 40))) if rnd.random() < 0.5 else "".join(rnd.choice(TOKEN_ALPHABET) for _ in range(rnd.randint(2, 40))))
    for _ in range(300 if tier == "quick" else 5000):
        strings.append("".join(chr(rnd.choice([rnd.randint(32, 126), rnd.randint(0xA0, 0x2FF), rnd.randint(0x2000, 0x2BFF), rnd.randint(0x1F300, 0x1F6FF), 9])) for _ in range(rnd.randint(1, 24))))
    # divisors that are zero only after (or only before) unit conversion, zero bases under negative powers, cancelling differences
    strings += ["1K / -273.15°C", "1 K / -459.67 °F", "546.3K / 0°C", "10 J / -273.15 °C", "1 m / (1 m - 100 cm)", "1 / (1 km - 1000 m)", "1 m / (0 km)", "(1 m - 100 cm) ^ -1", "1 s / (60 s - 1 min)",
                "1 / (32 °F to °C)", "1 K / (0 K)", "1 / (1 - 1)", "5 % / (1 - 100%)", "1 m / 0 s", "0 m / 0 m", "1 kg / (1000 g - 1 kg)", "1 / (0 °C to K) * 1", "1 K / (0 °C to °F)", "2 ^ (1 m / 1 m)", "1 / round(0.4)"]
    strings += ["1 m^0", "1 J/N * 1 m", "round(1.234, 2)", "0 ^ -1", "1 / 0", "1e999 * 1e999", "2 ^ 999", "1m^99", "(", ")", "((", "round(", "round(,)", "1 to", "to m", "1 m to °C^2", "10 °C/s to K/s",
                "1e-999", "1 km^-99 to m^-99", "{speed of light", "speed of light}", "\\", "1 °C * 1 °C", "1 °F^-1 to K^-1", "1 % %", "1%%", "- 1", "1 - - 1", "1e", "1e+", "1.e5.", "..", "1..2"]
    # builtins on arguments at and beyond the edge of f64 (sin / cos go through f64), with and without units
    for fn in ("sin", "cos", "round", "floor", "ceil"):
        for arg in ("0", "1e308", "1e309", "-1e309", "1e999", "-1e999", "1e-999", "10^309", "1 m", "1e999 m", "1e999, 2", "1, 1e999", "0.5, 0 - 400"):
            strings.append(f"{fn}({arg})")
            strings.append(f"{fn}({arg}) + 1")
    ans = rac.ask_many_guarded([{"cmd": "query", "q": s} for s in strings])
    slow_family = re.compile(r"\^|\*\*|[0-9.][eE]")      # known finding D28: work grows with the VALUE of an exponent, not with the size of the input
    for s, a in zip(strings, ans):
        if a.get("skipped"):
            continue
        rep.ran(s, True, dict(input=s, results=len(a.get("results", []))))
        if a.get("timeout"):
            if not slow_family.search(s):
                rep.fail("no answer within 3 s for an input without any exponent", query=s, expected="values or located errors", actual="timeout")
            continue
        if "panic" in a:
            rep.fail("panic", query=s, expected="values or located errors", actual=str(a["panic"])[:200])
            continue
        if "parse_error" in a:
            rep.fail("parse failed (no tree)", query=s, expected="a tree with ERROR nodes", actual=a["parse_error"][:200])
            continue
        for r in a["results"]:
            if "ok" in r:
                d = r["ok"].get("display")
                if isinstance(d, dict):
                    rep.fail("value cannot be displayed (panic in Display)", query=s, expected="text", actual=str(d)[:200])
            else:
                e = r["err"]
                if not e["on_boundary"] or not e["msg"]:
                    rep.fail("error range outside the input or off a character boundary", query=s, expected="range inside the input on character boundaries", actual=json.dumps(e)[:200])
    return [rep]


STANDINS["C12"] = c12
STANDINS["C11"] = c11


def c09(rac, units, tier, seed):
    rep = Report("C09 OP_CAST arm of eval() on temperature scales", "grid of magnitudes (integers, decimals, negatives, 1e30, 1e-30) x 6 direct conversions, all 3-step chains, round trips, prefixed kelvin; guard family: offset scale squared / inverted / multiplied with other units must be refused or treated as an interval")
    rnd = random.Random(seed)
    K0 = F(27315, 100)
    to_k = {"K": lambda x: x, "°C": lambda x: x + K0, "°F": lambda x: (x - 32) * F(5, 9) + K0}
    from_k = {"K": lambda k: k, "°C": lambda k: k - K0, "°F": lambda k: (k - K0) * F(9, 5) + 32}
    mags = ["0", "1", "37", "100", "451", "0.5", "273.15", "32", "212", "1e30", "1e-30", "123456789.125", "0 - 40", "0 - 273.15", "0 - 459.67", "0 - 1e12"]
    if tier != "quick":
        mags += [f"{rnd.randint(-10**6, 10**6)} / {rnd.randint(1, 999)}" for _ in range(120)]

    def val(m):
        t = m.replace("0 - ", "-")
        if "/" in t:
            a, b = t.split("/")
            return F(int(a), int(b))
        return F(t)

    def lit(m, u):
        return f"({m}){u}" if (" " in m) else f"{m}{u}"
    scales = ["K", "°C", "°F"]
    for m in mags:
        x = val(m)
        for a in scales:
            src = f"(0{a} - {m[4:]}{a})" if m.startswith("0 - ") else (f"({m.split('/')[0].strip()}{a} / {m.split('/')[1].strip()})" if "/" in m else f"{m}{a}")
            if "/" in m and x < 0:
                n = m.split("/")[0].strip()
                src = f"((0{a} - {n[1:]}{a}) / {m.split('/')[1].strip()})"
            for b in scales:
                exp = from_k[b](to_k[a](x))
                q = f"{src} to {b}"
                st = single_value(rac.query(q))
                rep.ran(q, True, dict(query=q, expected=str(exp)))
                if st[0] != "ok" or st[1] != exp:
                    rep.fail("defining affine formula", query=q, expected=str(exp), actual=str(st[1]) if len(st) > 1 else st[0])
                for c in scales:
                    q2 = f"({src} to {b}) to {c}"
                    exp2 = from_k[c](to_k[a](x))
                    st2 = single_value(rac.query(q2))
                    rep.ran(q2, True)
                    if st2[0] != "ok" or st2[1] != exp2:
                        rep.fail("chain ends where the direct conversion does / inverse", query=q2, expected=str(exp2), actual=str(st2[1]) if len(st2) > 1 else st2[0])
    for q, exp in [("1kK to °C", F(1000) - K0), ("273150mK to °C", F(0)), ("1mK to °C", F(1, 1000) - K0), ("1kK to °F", (F(1000) - K0) * F(9, 5) + 32), ("25°C to mK", (25 + K0) * 1000), ("(25°C to mK) to °C", F(25)), ("(212°F to kK) to °F", F(212))]:
        st = single_value(rac.query(q))
        rep.ran(q, True)
        if st[0] != "ok" or st[1] != exp:
            rep.fail("prefix is its power of ten next to an offset scale", query=q, expected=str(exp), actual=str(st[1]) if len(st) > 1 else st[0])
    # guard family: refused, or interval reading (value scaled by the degree size only)
    guard = [("10°C/s to K/s", F(10)), ("1 m*°C to m*K", F(1)), ("1 °C^2 to K^2", F(1)), ("1 °C^-1 to K^-1", F(1)), ("1 /°F to /K", F(9, 5)), ("10 K/s to °C/s", F(10)), ("9 °F/s to K/s", F(5)), ("1 °C*°C to K^2", F(1)),
             ("5 K*m to °C*m", F(5)), ("1 J/°C to J/K", F(1)), ("1 W/m^2/°C to W/m^2/K", F(1)),
             # a degree inside a compound cast to the very same unit: refused, or unchanged
             ("2 °C/min to °C/min", F(2)), ("2 °C/hr to °C/hr", F(2)), ("2 min*°C to min*°C", F(2)), ("2 m°C/s to m°C/s", F(2)), ("2 k°F/hr to k°F/hr", F(2)), ("2 cal/°C to cal/°C", F(2)),
             ("2 °C/s to °C/s", F(2)), ("3 °F^2 to °F^2", F(3)), ("5 km/°C to km/°C", F(5))]
    for q, interval in guard:
        st = single_value(rac.query(q))
        rep.ran(q, True, dict(query=q, expected=f"error or {interval}"))
        if st[0] == "ok" and st[1] != interval:
            rep.fail("zero-point offset added to a compound quantity", query=q, expected=f"an error or the interval reading {interval}", actual=str(st[1]))
        elif st[0] not in ("ok", "err"):
            rep.fail("neither value nor error", query=q, expected="error or interval reading", actual=st[0])
    for q, interval_si in [("1 °C * 1 °C", None), ("2 °C * 3 m", None), ("10 J / 5 °C", None), ("1 °C / 1 s", None), ("1 °F * 1 °F", None), ("(1 m*°C) * 1 s", None)]:
        st = single_value(rac.query(q))
        rep.ran(q, True)
        if st[0] == "ok":
            si = units.si(st[2])
            # interval reading: the product of the plain numbers times interval factors; anything involving 273.15 is the zero point
            v = st[1]
            if (v.denominator % 20 == 0 and v.denominator not in (1,)) or abs(v) > 1000:
                rep.fail("zero-point offset added to a product/quotient", query=q, expected="an error or an interval reading", actual=str(v))
    # products and quotients with a temperature scale on either side, in both orders: refused, or the interval reading -- the SI value
    # of the result is the product / quotient of the operands' values times their degree sizes (K 1, °C 1, °F 5/9), no zero point anywhere
    size = {"K": F(1), "K^2": F(1), "°C": F(1), "°F": F(5, 9), "m": F(1), "K*m": F(1), "°C^2": F(1), "s": F(1), "": F(1)}
    # (`°F^2` etc. would need the square of the degree size; one level is enough here)
    temps = ["K", "K^2", "°C", "°F", "°C^2"]
    others = ["m", "K*m", "s", ""]
    xs = [F(1), F(5), F(5, 2), F(-3), F(41)]
    txt = {F(1): "1", F(5): "5", F(5, 2): "2.5", F(-3): "-3", F(41): "41"}    # literals (`5/2 K` would read as 5 / (2 K))
    # not judged here: both operands a lone offset scale with power one (`41 °F / 2.5 °C`) -- each is then converted "alone with power
    # one", which the property allows (the pinned tree answers with the ratio of the absolute temperatures)
    lone = ("°C", "°F")
    pairs = [(a, b) for a in temps for b in temps + others if not (a in lone and b in lone)] + [(a, b) for a in others for b in temps]
    qs = []
    for ua, ub in pairs:
        for _ in range(2 if tier == "quick" else 6):
            x, y = rnd.choice(xs), rnd.choice(xs)
            for op in ("*", "/"):
                q = f"({txt[x]} {ua}) {op} ({txt[y]} {ub})".replace(" )", ")")
                sa = x * (size[ua] ** (2 if ua == "°C^2" else 1))
                sb = y * (size[ub] ** (2 if ub == "°C^2" else 1))
                qs.append((q, sa * sb if op == "*" else sa / sb))
    answers = rac.ask_many_guarded([{"cmd": "query", "q": q, "describe": False} for q, _ in qs], chunk=200, per_cmd_s=3.0)
    for (q, want), a in zip(qs, answers):
        if a is None or "results" not in a:
            continue
        st = single_value(a)
        rep.ran(("product", q), True)
        if st[0] == "ok":
            si = units.si(st[2])
            # judged only when the RESULT carries an offset scale that is not alone with power one: then no zero point may be in it.
            # (a result in kelvin or without unit may come from reading a lone `°C` operand as an absolute temperature, which the
            # property allows: `41 K / 5 °C` = 41 / 278.15 on the pinned tree)
            ents = st[2]["unit"]
            offs = [e for e in ents if units.entry_info(e[0])[2]]
            compound_offset = bool(offs) and (len(ents) > 1 or any(int(e[1]) != 1 for e in offs))
            if compound_offset and si is not None and si[0] != want:
                rep.fail("zero-point offset added to a product/quotient (neither refused nor the interval reading)", query=q, expected=f"an error, or a value whose SI interval reading is {want}", actual=f"{st[1]} {st[2].get('unit_str')} (SI interval reading {si[0]})")
        elif st[0] not in ("err",):
            rep.fail("neither value nor error", query=q, expected="error or interval reading", actual=str(st[0]))
    return [rep]


STANDINS["C09"] = c09


def c17(rac, units, tier, seed):
    import glob
    rep = Report("C17 serde derive output (CBOR/JSON round trips through the public types)", "rationals: grid incl. 0, negatives, 10^+-40, thirds; unit expressions: every documented unit name x {none, k, m} x powers -3..3 (exhaustive over the vocabulary) + seeded random products; every constant of every shipped db/*.bin.gz (exhaustive)")
    rnd = random.Random(seed)
    rats = [(0, 1), (1, 1), (-1, 1), (1, 3), (-2, 3), (1, 100), (27315, 100), (10**40, 1), (1, 10**40), (-10**40, 7), (2**64, 3), (2**32, 1), (2**32 - 1, 2**32), (123456789, 1000)]
    N = 40 if tier == "quick" else 300
    rats += [(rnd.randint(-10**rnd.randint(0, 30), 10**rnd.randint(0, 30)), rnd.randint(1, 10**rnd.randint(0, 20))) for _ in range(N)]
    ans = rac.ask_many([{"cmd": "serde_rational", "n": str(n), "d": str(d)} for n, d in rats])
    for (n, d), a in zip(rats, ans):
        rep.ran(("rat", n, d), True, dict(rational=f"{n}/{d}", answer=a))
        if not (a.get("cbor_eq") and a.get("json_eq")):
            rep.fail("rational does not survive CBOR/JSON", query=f"Rational {n}/{d}", expected="decodes to an equal value", actual=json.dumps(a)[:200], cmd={"cmd": "serde_rational", "n": str(n), "d": str(d)}, raw=a)
    words = [w for w, _ in _unit_words(units, exclude_offsets=False)]
    exprs = []
    for w in words:
        for pre in ("", "k", "m"):
            for pw in (-3, -2, -1, 1, 2, 3):
                exprs.append(f"{pre}{w}" + (f"^{pw}" if pw != 1 else ""))
    # every SI prefix spelling on every word (the stored prefix is biased for the gram: `yg` is stored as 10^-27 kg): power 1 and -2
    allpre = ["y", "z", "a", "f", "p", "n", "µ", "u", "m", "c", "d", "da", "h", "k", "M", "G", "T", "P", "E", "Z", "Y"]
    for w in words:
        for pre in allpre:
            for pw in (1, -2):
                exprs.append(f"{pre}{w}" + (f"^{pw}" if pw != 1 else ""))
    for pre in allpre:
        exprs += [f"{pre}g/m^3", f"J/{pre}g", f"{pre}g*m/s^2", f"{pre}m/{pre}s", f"{pre}B/s"]
    exprs = list(dict.fromkeys(exprs))
    for _ in range(100 if tier == "quick" else 2000):
        exprs.append(_rand_unit_expr(rnd, units, [(w, nm, 0) for w, nm in _unit_words(units, exclude_offsets=True)], rnd.randint(2, 4))[0])
    ans = rac.ask_many([{"cmd": "serde_compound", "s": e} for e in exprs])
    for e, a in zip(exprs, ans):
        if "err" in a and str(a["err"]).startswith("parse:"):
            continue   # the word is not accepted with this prefix (C05's concern), nothing to round-trip
        rep.ran(("unit", e), True, dict(unit=e))
        if "err" in a:
            rep.fail("a unit expression that parses does not survive CBOR (" + str(a["err"]).split(":")[0] + " fails)", query=f"unit {e}", expected="encodes and decodes to an equal unit expression", actual=str(a["err"])[:300], cmd={"cmd": "serde_compound", "s": e}, raw=a)
            continue
        if "panic" in a or not a.get("cbor_eq") or a.get("unit") != a.get("unit2"):
            rep.fail("unit expression does not survive CBOR", query=f"unit {e}", expected="decodes to an equal unit expression", actual=json.dumps(a, ensure_ascii=False)[:300], cmd={"cmd": "serde_compound", "s": e}, raw=a)
    total = 0
    for path in sorted(glob.glob(os.path.join(rac.repo, "db", "*.bin.gz"))):
        a = rac.ask({"cmd": "constants", "path": path})
        if "constants" not in a:
            rep.fail("shipped data file does not decode", query=path, expected="a list of constants", actual=json.dumps(a)[:300])
            continue
        for c in a["constants"]:
            total += 1
            rep.ran(("const", path, json.dumps(c.get("tokens"))), True, dict(file=os.path.basename(path), tokens=c.get("tokens")) if total < 3 else None)
            if "decode_err" in c or "redecode_err" in c or not c.get("eq"):
                rep.fail("shipped constant does not decode completely / re-encode losslessly", query=f"{os.path.basename(path)} {c.get('tokens') or c.get('raw')}", expected="value, unit, description and source decode and survive a second round trip", actual=json.dumps(c, ensure_ascii=False)[:300])
    if total < 800:
        rep.fail("fewer constants than shipped were seen", query="db/*.bin.gz", expected=">= 800 constants", actual=str(total))
    return [rep]


STANDINS["C17"] = c17


_LIT = re.compile(r"^([+-]?)(\d*)(?:\.(\d*))?(?:[eE]([+-]?)(\d*))?$")


def lit_oracle(t):
    """the number a decimal literal spells (independent of /repo): sign? D* ('.' D*)? ([eE] sign? D*)?  -> Fraction | None"""
    m = _LIT.match(t)
    if not m or not t.isascii():
        return None
    sign, ip, fp, es, ed = m.groups()
    v = F(int(ip or "0")) + (F(int(fp), 10 ** len(fp)) if fp else F(0))
    e = int(ed or "0")
    if e > 4000:
        return "huge"
    v *= F(10) ** (-e if es == "-" else e)
    return -v if sign == "-" else v


def c07(rac, units, tier, seed):
    k = 5 if tier == "quick" else 7
    rep = Report("C07 str::parse::<Rational> and the NUMBER / PERCENTAGE arms of eval()", f"every string of <= {k} characters over the alphabet 0 1 9 + - . e E (exhaustive, exponents of at most 3 digits) given to the library parser; those the lexer reads as one NUMBER token also as queries (with and without %); seeded random long literals (<= 90 digits, zero-rich); oracle: an independent regex/Fraction reading of the grammar")
    rnd = random.Random(seed)
    alpha = "019+-.eE"
    strings = []
    big_exp = re.compile(r"[eE][+-]?0*[0-9]{4,}$")     # exponents of >= 4 significant digits: printing 10^e digit by digit is quadratic (known finding D28 family); not explored
    for L in range(0, k + 1):
        strings += [t for t in ("".join(c) for c in itertools.product(alpha, repeat=L)) if not big_exp.search(t)]
    ans = rac.ask_many([{"cmd": "rational", "s": t} for t in strings], chunk=2000)
    accepted = []
    for t, a in zip(strings, ans):
        exp = lit_oracle(t)
        rep.ran(t, exp is not None, dict(literal=t, expected=str(exp)) if exp is not None and len(t) == k else None)
        if "panic" in a:
            rep.fail("number parser panicked", query=f"parse {t!r}", expected=str(exp), actual=a["panic"][:100])
        elif exp is None:
            if "ok" in a:
                rep.fail("a string that is not a literal was accepted", query=f"parse {t!r}", expected="error", actual=str(frac_of(dict(value=a["ok"]))), cmd={"cmd": "rational", "s": t}, raw=a)
        elif exp == "huge":
            continue
        else:
            if "ok" not in a:
                rep.fail("a literal of the language was rejected", query=f"parse {t!r}", expected=str(exp), actual=json.dumps(a)[:100], cmd={"cmd": "rational", "s": t}, raw=a)
            else:
                got = frac_of(dict(value=a["ok"]))
                if got != exp:
                    rep.fail("literal read as a different number", query=f"parse {t!r}", expected=str(exp), actual=str(got), cmd={"cmd": "rational", "s": t}, raw=a)
                accepted.append((t, exp))
    # long literals
    longs = []
    for _ in range(400 if tier == "quick" else 6000):
        n1, n2 = rnd.randint(0, 60), rnd.choice([0, 0, rnd.randint(1, 30)])
        digs = lambda n: "".join(rnd.choice("0000123456789") for _ in range(n))
        t = rnd.choice(["", "-", "+"]) + digs(n1) + ("." + digs(n2) if n2 or rnd.random() < 0.2 else "")
        if rnd.random() < 0.4:
            t += rnd.choice("eE") + rnd.choice(["", "-", "+"]) + str(rnd.randint(0, 40)).zfill(rnd.randint(1, 4))
        longs.append(t)
    longs += ["1" + "0" * n for n in range(15, 45)] + ["9" * 17 + "0" * n + "5" for n in range(0, 8)] + ["0." + "0" * n + "1" for n in range(15, 45)] + ["1e4294967296", "1e-4294967296", "1e00000000000000000005"]
    ans = rac.ask_many([{"cmd": "rational", "s": t} for t in longs])
    for t, a in zip(longs, ans):
        exp = lit_oracle(t)
        rep.ran(t, True)
        if exp == "huge":
            if t in ("1e4294967296", "1e-4294967296") and "ok" in a:
                rep.fail("exponent beyond u32 accepted", query=f"parse {t!r}", expected="error", actual="ok")
            continue
        if "ok" not in a or frac_of(dict(value=a["ok"])) != exp:
            rep.fail("long literal read as a different number", query=f"parse {t!r}", expected=str(exp), actual=json.dumps(a)[:160], cmd={"cmd": "rational", "s": t}, raw=a)
    # the same literals written as queries (NUMBER / PERCENTAGE arms): only spellings the lexer reads as one NUMBER token
    def small_exp(t):
        m = re.search(r"[eE][+-]?(\d+)$", t)
        return m is None or int(m.group(1)) <= 999      # larger exponents make Display's digit loop quadratic (known finding D28 family)
    qs = [(t, exp) for t, exp in accepted if t and t[0] not in "+-" and t[0] != "e" and t[0] != "E" and small_exp(t)][: (4000 if tier == "quick" else 40000)]
    qs += [(t, lit_oracle(t)) for t in longs if t and t[0].isdigit() and lit_oracle(t) not in (None, "huge")][:300]
    lexed = rac.ask_many([{"cmd": "lex", "s": t} for t, _ in qs], chunk=2000)
    todo = []
    strict = re.compile(r"^(\d+\.?\d*|\.\d+)([eE][+-]?\d+)?$")   # at least one mantissa digit; exponent digits present when the marker is
    for (t, exp), lx in zip(qs, lexed):
        toks = lx.get("tokens", [])
        if len(toks) == 1 and toks[0][1] == "NUMBER":
            todo.append((t, exp))
            todo.append((t + "%", exp / 100))
        elif strict.match(t):
            # the literal's extent is the lexer's decision: a complete literal of the language must come out as ONE NUMBER token
            rep.ran("lex:" + t, True)
            rep.fail("a complete decimal literal is not lexed as one NUMBER token", query=t, expected="[NUMBER]", actual=json.dumps(toks)[:200], cmd={"cmd": "lex", "s": t}, raw=lx)
    ans = rac.ask_many([{"cmd": "query", "q": t} for t, _ in todo], chunk=2000)
    for (t, exp), a in zip(todo, ans):
        st = single_value(a)
        rep.ran("q:" + t, True)
        if st[0] != "ok" or st[1] != exp:
            rep.fail("literal written as a query denotes a different number than the library parser gives", query=t, expected=str(exp), actual=str(st[1]) if len(st) > 1 else st[0])
    return [rep]


STANDINS["C07"] = c07


_DISP = re.compile(r"^(-?)(\d+)(?:\.(\d+))?(…?)(?:e(-?\d+))?$")


def display_check(text, x, limit):
    """-> None if `text` is a faithful rendering of the Fraction x, else a reason.  Oracle written from the property text:
    read back (sign, digits, exponent) = x cut off toward zero at the last printed digit; mark present <=> something non-zero was cut."""
    m = _DISP.match(text)
    if not m and limit == 0:
        # with no digit budget the scientific form prints its point with nothing after it (`4.…e3`): still reads back as a decimal
        m = _DISP.match(text.replace(".", "", 1)) if re.match(r"^-?\d\.(…|e|$)", text) else None
    if not m:
        return "not of the form [-]digits[.digits][…][e[-]digits]"
    sign, ip, fp, mark, ex = m.groups()
    fp = fp or ""
    e = int(ex) if ex else 0
    printed = F(int(ip + fp), 10 ** len(fp)) * F(10) ** e
    ulp = F(1, 10 ** len(fp)) * F(10) ** e
    ax = abs(x)
    if x < 0 and printed != 0 and sign != "-":
        return "sign lost"
    if x >= 0 and sign == "-":
        return "spurious minus sign"
    if printed > ax:
        return f"printed magnitude {printed} exceeds the exact value"
    if ax - printed >= ulp:
        return f"not the exact value cut at the last printed digit (off by >= one unit of the last digit)"
    if (mark == "…") != (printed != ax):
        return "continuation mark missing although non-zero digits were cut off" if printed != ax else "continuation mark although nothing non-zero was cut off"
    return None


def c08(rac, units, tier, seed, known_p=()):
    N, D, LIM, ELIM = (40, 40, 8, 6) if tier == "quick" else (120, 120, 14, 10)
    rep = Report("C08 Display::fmt / format_big / format_whole (iterator pipelines into fmt::Formatter)", f"all n/d with |n| <= {N}, 1 <= d <= {D} times 10^k (k in -12..12 step 3), limits 1..{LIM}, exponent limits 1..{ELIM} (sampled to a cap) + seeded random big/small rationals + boundary family; read-back oracle from the property text")
    rnd = random.Random(seed)
    vals = set()
    for n in range(-N, N + 1):
        for d in range(1, D + 1):
            vals.add(F(n, d))
    vals = sorted(vals)
    cases = []
    cap = 30000 if tier == "quick" else 300000
    for _ in range(cap):
        x = rnd.choice(vals) * F(10) ** rnd.choice([0, 0, 0, 3, -3, 6, -6, 9, -9, 12, -12])
        cases.append((x, rnd.randint(1, LIM), rnd.randint(1, ELIM)))
    for _ in range(cap // 10):
        x = F(rnd.randint(-10 ** rnd.randint(1, 25), 10 ** rnd.randint(1, 25)), rnd.randint(1, 10 ** rnd.randint(0, 25)))
        cases.append((x, rnd.randint(1, LIM), rnd.randint(1, ELIM)))
    # boundary family: values whose cut falls exactly on / next to the last integer digit, zeros only cut, last digit cut
    for lim in range(1, LIM + 1):
        for el in range(1, ELIM + 1):
            for x in [F(1, 8), F(1, 3), F(123456, 1), F(1234565, 10), F(10 ** 9), F(10 ** 9) + F(1, 2), F(200000001, 2), F(-200000001, 2), F(999999999, 1), F(1, 10 ** 7), F(1234567, 10 ** 7), F(-1, 8), F(31, 2), F(10 ** el), F(10 ** el) - 1, F(10 ** el) + F(1, 10 ** lim), F(1, 10 ** el), F(1, 10 ** (el + 1)), F(15, 10 ** (el + 2))]:
                cases.append((x, lim, el))
    # digit limit 0 ("every display precision"): only for |x| >= 1 -- a value below one has no digit at all to print then, and what the
    # text should be in that case is not said by the property (the pinned tree prints `…e-1` for 0.5)
    big = [x for x in vals if abs(x) >= 1]
    for _ in range(cap // 20):
        x = rnd.choice(big) * F(10) ** rnd.choice([0, 0, 3, 6, 9])
        cases.append((x, 0, rnd.randint(1, ELIM)))
    for x in [F(5, 2), F(-5, 2), F(22, 7), F(2), F(-2), F(12345000001, 10 ** 6), F(10 ** 9) + F(1, 2), F(10 ** 9)]:
        for el in range(1, ELIM + 1):
            cases.append((x, 0, el))
    ans = rac.ask_many([{"cmd": "display", "n": str(x.numerator), "d": str(x.denominator), "limit": lim, "exp": el} for x, lim, el in cases], chunk=2000)
    for (x, lim, el), a in zip(cases, ans):
        key = (x, lim, el)
        if "panic" in a:
            rep.ran(key, True)
            rep.fail("Display panicked", query=f"{x} limit={lim} exponent_limit={el}", expected="text", actual=a["panic"][:120])
            continue
        why = display_check(a["s"], x, lim)
        rep.ran(key, True, dict(value=str(x), limit=lim, exponent_limit=el, text=a["s"]) if len(rep.samples) < 6 and x.denominator > 1 else None)
        if why:
            rep.fail(why, query=f"{x} limit={lim} exponent_limit={el}", expected="the exact value cut off toward zero at the last printed digit, mark iff non-zero digits were cut", actual=a["s"],
                     cmd={"cmd": "display", "n": str(x.numerator), "d": str(x.denominator), "limit": lim, "exp": el}, raw=a)
    return [rep]


STANDINS["C08"] = c08


SI_PREFIX = {"YOTTA": 24, "ZETTA": 21, "EXA": 18, "PETA": 15, "TERA": 12, "GIGA": 9, "MEGA": 6, "KILO": 3, "HECTO": 2, "DECA": 1, "DECI": -1, "CENTI": -2, "MILLI": -3,
             "MICRO": -6, "NANO": -9, "PICO": -12, "FEMTO": -15, "ATTO": -18, "ZEPTO": -21, "YOCTO": -24}   # SI brochure, 9th ed., table 7


def _vocabulary(repo):
    import tomllib
    data = tomllib.load(open(os.path.join(repo, "tools", "gen", "data.toml"), "rb"))
    names = {}     # spelling -> set of (unit key, bias)
    for u in data["units"]:
        key = u["unit"] if u["type"] == "base" else int(u["id"], 16)
        for n in u["names"]:
            names.setdefault(n, set()).add((key, u.get("prefix_bias", 0)))
    prefixes = {}  # spelling -> exponent
    for p in data["prefixes"]:
        for n in p["names"]:
            prefixes[n] = SI_PREFIX[p["prefix"]]
    return names, prefixes


def _readings(word, names, prefixes, depth=0):
    """all readings of a word as a sequence of [prefix] unit-name pieces -> list of tuples of (unit key, prefix exponent incl. bias)"""
    if word == "":
        return [()]
    if depth > 4:
        return []
    out = []
    for L in range(1, len(word) + 1):
        head = word[:L]
        cands = []
        if head in names:
            cands += [(k, b) for k, b in names[head]]
        for pl in range(1, L):
            if head[:pl] in prefixes and head[pl:] in names:
                cands += [(k, prefixes[head[:pl]] + b) for k, b in names[head[pl:]]]
        if cands:
            for rest in _readings(word[L:], names, prefixes, depth + 1):
                for c in cands:
                    out.append((c,) + rest)
    return out


def _aggregate(reading):
    """(unit, prefix)* -> frozenset of (unit, power, prefix) or None when one unit occurs with two prefixes"""
    agg = {}
    for u, p in reading:
        if u in agg and agg[u][1] != p:
            return None
        agg[u] = (agg.get(u, (0, p))[0] + 1, p)
    return frozenset((u, n, p) for u, (n, p) in agg.items())


def _unit_key(u):
    return u if isinstance(u, str) else int(u)


def c05(rac, units, tier, seed):
    names, prefixes = _vocabulary(rac.repo)
    rep = Report("C05 generated::unit::parse (logos output) + eval::unit word/operator handling", f"every documented unit name ({len(names)}) alone and with every prefix spelling ({len(prefixes)}) - finite and complete over the vocabulary; unit expressions of <= 4 factors over * blank / ^n (sampled); oracle: the documented names and SI prefix exponents, independent segmentation")
    rnd = random.Random(seed)
    words = sorted(names)
    lexed = rac.ask_many([{"cmd": "lex", "s": w} for w in words], chunk=1000)
    typeable = [w for w, lx in zip(words, lexed) if len(lx.get("tokens", [])) == 1 and lx["tokens"][0][1] == "WORD"]
    # (ii) every documented name that can be typed is accepted alone with exactly its meaning
    ans = rac.ask_many([{"cmd": "compound", "s": w} for w in typeable], chunk=1000)
    for w, a in zip(typeable, ans):
        rep.ran(("alone", w), True, dict(word=w) if len(rep.samples) < 3 else None)
        want = {frozenset([(k, 1, b)]) for k, b in names[w]}
        got = frozenset((_unit_key(u), p, pre) for u, p, pre in a["ok"]["unit"]) if "ok" in a else None
        if got not in want:
            rep.fail("documented unit name not accepted alone with its own meaning", query=w, expected=str(sorted(map(sorted, want), key=str)), actual=json.dumps(a, ensure_ascii=False)[:200], cmd={"cmd": "compound", "s": w}, raw=a)
    # (i) an accepted prefixed word is one of the valid readings
    combos = [p + w for w in typeable for p in prefixes]
    ans = rac.ask_many([{"cmd": "compound", "s": c} for c in combos], chunk=2000)
    accepted = 0
    for c, a in zip(combos, ans):
        if "ok" not in a:
            rep.ran(("prefixed", c), False)
            continue
        accepted += 1
        rep.ran(("prefixed", c), True, dict(word=c, read_as=a["ok"]["unit"]) if len(rep.samples) < 6 else None)
        got = frozenset((_unit_key(u), p, pre) for u, p, pre in a["ok"]["unit"])
        valid = {_aggregate(r) for r in _readings(c, names, prefixes)}
        if got not in valid:
            rep.fail("accepted word is not a valid reading as SI prefix + unit name(s)", query=c, expected=str([sorted(v, key=str) for v in valid if v][:4]), actual=json.dumps(a["ok"]["unit"], ensure_ascii=False), cmd={"cmd": "compound", "s": c}, raw=a)
    # (iii) operators inside a unit expression: juxtaposition / * / blank multiply, `/` inverts everything after it, ^n applies to the unit it follows
    simple = [w for w in typeable if len(names[w]) == 1 and w.isascii() and len(w) >= 1]
    pool = [w for w in ["m", "s", "kg", "A", "K", "mol", "cd", "B", "N", "J", "W", "Pa", "Hz", "V", "ft", "mile", "hour", "l", "btu", "acre"] if w in simple]
    exprs = []
    for _ in range(600 if tier == "quick" else 8000):
        n = rnd.randint(1, 4)
        ws = rnd.sample(pool, n)
        txt, agg, sign = "", {}, 1
        for i, w in enumerate(ws):
            if i:
                sep = rnd.choice(["*", " ", "/", "* ", "/ ", "/", "*"])   # operators are written without a blank before them (DESIGN 6.0)
                txt += sep
                if "/" in sep:
                    sign = -1
            pw = rnd.choice([1, 1, 1, 2, 3, -1, -2, 0])
            txt += w + (f"^{pw}" if pw != 1 or rnd.random() < 0.1 else "")
            (k, b), = names[w]
            agg[k] = (agg.get(k, (0, b))[0] + sign * pw, b)
        want = frozenset((k, n_, b) for k, (n_, b) in agg.items() if n_ != 0)
        exprs.append((txt, want))
    exprs += [("m/s/s", frozenset([("Meter", 1, 0), ("Second", -2, 0)])), ("m*m^2", frozenset([("Meter", 3, 0)])), ("m^0", frozenset()), ("m/m", frozenset()), ("m/s*kg", frozenset([("Meter", 1, 0), ("Second", -1, 0), ("KiloGram", -1, 0)])),
              ("m^2 m", frozenset([("Meter", 3, 0)])), ("m/m^2", frozenset([("Meter", -1, 0)])), ("kg m^2/s^2", frozenset([("KiloGram", 1, 0), ("Meter", 2, 0), ("Second", -2, 0)]))]
    # one unit written with two different prefixes inside one expression cannot be represented (one prefix per unit): it must be refused,
    # never silently read as a plain number or with one of the prefixes
    mixed = []
    for w in ["m", "g", "s", "W", "J", "l", "Pa", "V"]:
        for p1, p2 in [("k", ""), ("m", "k"), ("", "c"), ("M", "m")]:
            for sep in ("/", "*", " "):
                mixed.append(f"{p1}{w}{sep}{p2}{w}")
    ans = rac.ask_many([{"cmd": "compound", "s": t} for t in mixed])
    for t, a in zip(mixed, ans):
        rep.ran(("mixed", t), True)
        if "ok" in a:
            rep.fail("one unit with two different prefixes was accepted (the prefix scale is lost)", query=t, expected="an error (mismatching prefix)", actual=json.dumps(a, ensure_ascii=False)[:200], cmd={"cmd": "compound", "s": t}, raw=a)
    ans = rac.ask_many([{"cmd": "compound", "s": t} for t, _ in exprs], chunk=2000)
    for (t, want), a in zip(exprs, ans):
        rep.ran(("expr", t), True, dict(unit_expression=t) if len(rep.samples) < 9 else None)
        got = frozenset((_unit_key(u), p, pre) for u, p, pre in a["ok"]["unit"]) if "ok" in a else None
        if got != want:
            rep.fail("unit expression: juxtaposition/*/blank multiply, / inverts everything after it, ^n applies to the unit it follows", query=t, expected=str(sorted(want, key=str)), actual=json.dumps(a, ensure_ascii=False)[:200], cmd={"cmd": "compound", "s": t}, raw=a)
    rep.bound += f"; {len(typeable)} typeable names, {accepted} of {len(combos)} prefixed spellings accepted"
    return [rep]


STANDINS["C05"] = c05


def c18(rac, units, tier, seed):
    import glob
    rep = Report("C18 eval() recursion / Db::lookup (tantivy) around the proved SENTENCE|WORD arm", "shipped fact phrases (sampled quick / all thorough) alone and in sums/products of 2-3 facts: values with and without descriptions, descriptions = the looked-up phrases each paired with the value it contributes, same answers in a fresh process and after unrelated queries")
    rnd = random.Random(seed)
    phrases = []
    for path in sorted(glob.glob(os.path.join(rac.repo, "db", "*.bin.gz"))):
        a = rac.ask({"cmd": "constants", "path": path})
        for c in a.get("constants", []):
            toks = c.get("tokens") or []
            if toks and all(re.fullmatch(r"[a-z]+", t) for t in toks) and not any(t in ("to", "as", "in") for t in toks):
                phrases.append(" ".join(toks))
    phrases = sorted(set(phrases))
    if tier == "quick":
        phrases = rnd.sample(phrases, min(60, len(phrases)))

    def run(q, describe):
        return rac.ask({"cmd": "query", "q": q, "describe": describe})

    def val(a):
        st = single_value(a)
        return (st[0], st[1], tuple(map(tuple, st[2]["unit"])) if st[0] == "ok" else None)
    alone = {}
    for ph in phrases:
        q = ph
        a0, a1 = run(q, False), run(q, True)
        rep.ran(("alone", ph), True, dict(query=q) if len(rep.samples) < 4 else None)
        v0, v1 = val(a0), val(a1)
        alone[ph] = v0
        if v0 != v1:
            rep.fail("describing changes the answer", query=q, expected=str(v0), actual=str(v1))
        if a0.get("descriptions"):
            rep.fail("descriptions reported although not enabled", query=q, expected="[]", actual=json.dumps(a0["descriptions"])[:200])
        if v0[0] == "ok":
            ds = a1.get("descriptions", [])
            if len(ds) != 1 or ds[0]["phrase"] != ph or F(int(ds[0]["value"]["n"]), int(ds[0]["value"]["d"])) != v0[1]:
                rep.fail("description is not exactly the looked-up phrase with the constant used", query=q, expected=f"[{ph} = {v0[1]}]", actual=json.dumps(ds, ensure_ascii=False)[:300])
    good = [ph for ph in phrases if alone[ph][0] == "ok"]
    for _ in range(60 if tier == "quick" else 1500):
        k = rnd.choice([2, 2, 3])
        phs = [rnd.choice(good) for _ in range(k)]
        op = rnd.choice(["*", "/"])
        q = f" {op} ".join("(" + ph + ")" for ph in phs)
        a0, a1 = run(q, False), run(q, True)
        rep.ran(("combo", q), True, dict(query=q) if len(rep.samples) < 8 else None)
        if val(a0) != val(a1):
            rep.fail("describing changes the answer", query=q, expected=str(val(a0)), actual=str(val(a1)))
        if val(a1)[0] == "ok":
            ds = a1.get("descriptions", [])
            got = sorted((d["phrase"], F(int(d["value"]["n"]), int(d["value"]["d"]))) for d in ds)
            want = sorted((ph, alone[ph][1]) for ph in phs)
            if got != want:
                rep.fail("descriptions are not exactly the looked-up phrases paired with the constants used", query=q, expected=str(want)[:300], actual=str(got)[:300])
    # the same phrase used twice (caches), and several queries in one input: every use is reported, each query as in isolation
    for ph in good[:25]:
        other = rnd.choice(good)
        for q, want_ph in [(f"({ph}) / ({ph})", [ph, ph]), (f"({ph}) * ({other}) / ({ph})", [ph, other, ph]), (f"({ph}) ({ph})", None), (f"({other}) ({ph})", None)]:
            a1 = run(q, True)
            a0 = run(q, False)
            rep.ran(("repeat", q), True)
            if [json.dumps(x.get("ok", x.get("err")), sort_keys=True) for x in a0.get("results", [])] != [json.dumps(x.get("ok", x.get("err")), sort_keys=True) for x in a1.get("results", [])]:
                rep.fail("describing changes the answer", query=q, expected="same results", actual="differ")
            got = sorted(d["phrase"] for d in a1.get("descriptions", []))
            want = sorted(want_ph) if want_ph is not None else sorted(re.findall(r"\(([^()]*)\)", q))
            if all("ok" in x for x in a1.get("results", [])) and got != want:
                rep.fail("every looked-up phrase is reported, as often as it is used", query=q, expected=str(want), actual=str(got))
    # several results in one input, some of them failing: the descriptions of the successful results are all there, in order
    for _ in range(30 if tier == "quick" else 400):
        k = rnd.choice([2, 3, 3, 4])
        parts = [("err", rnd.choice(["1 / 0", "1 m + 1 s", "nosuchfn(1)"])) if rnd.random() < 0.4 else ("ph", rnd.choice(good)) for _ in range(k)]
        if not any(t == "err" for t, _ in parts):
            parts[rnd.randrange(k)] = ("err", "1 / 0")
        q = " ".join("(" + x + ")" for _, x in parts)
        a1 = run(q, True)
        rep.ran(("multi-err", q), True)
        got = [d["phrase"] for d in a1.get("descriptions", [])]
        want = [x for t, x in parts if t == "ph"]
        if len(a1.get("results", [])) == len(parts) and got != want:
            rep.fail("a failing result changes the descriptions reported for the other results of the same input", query=q, expected=str(want), actual=str(got))
    # order independence and isolation on ONE database.  Every process below opens the same on-disk index (built once, then read-only), so
    # "in isolation" and "after other queries" are asked of the same database; two in-memory instances may legitimately order equal-score
    # matches differently (multi-threaded index build), which is not what the property speaks about.
    # Families of near-identical phrases (case variants, tantivy operator words in both cases, outer blanks) are asked forwards in one
    # process, backwards in another, and a sample as the very first query of a fresh process: a stateful lookup (cache keyed too coarsely,
    # state carried from one query to the next) answers differently in at least one of the three.
    import tempfile, shutil
    from .rac import Rac
    fam = []
    for ph in good[:12 if tier == "quick" else 60]:
        ws = ph.split()
        if len(ws) >= 2:
            fam.append([ph, ph.upper(), ph.title(), f"{ws[0]} not {ws[-1]}", f"{ws[0]} NOT {ws[-1]}", f"{ws[0]} or {ws[-1]}", f"{ws[0]} OR {ws[-1]}", f"{ws[0]} and {ws[-1]}", f"{ws[0]} AND {ws[-1]}", "  " + ph + " "])
    fam.append(rnd.sample(good, min(25, len(good))))
    os.makedirs("/var/tmp", exist_ok=True)
    home = tempfile.mkdtemp(prefix="anything-verif-c18-", dir="/var/tmp")
    try:
        Rac(rac.repo, data_home=home).close()          # builds the index on disk
        fwd, bwd = Rac(rac.repo, data_home=home), Rac(rac.repo, data_home=home)
        a_f, a_b = {}, {}
        try:
            for group in fam:
                for q in group:
                    a_f[q] = val(fwd.ask({"cmd": "query", "q": "(" + q + ")", "describe": True}))
                for q in reversed(group):
                    a_b[q] = val(bwd.ask({"cmd": "query", "q": "(" + q + ")", "describe": True}))
                for q in group:
                    rep.ran(("order", q), True)
                    if a_f[q] != a_b[q]:
                        rep.fail("the answer to a lookup depends on which lookups were made before it on the same database", query="(" + q + ")", expected=str(a_b[q])[:150] + " (asked after its later siblings)", actual=str(a_f[q])[:150] + " (asked after its earlier siblings)")
        finally:
            fwd.close()
            bwd.close()
        firsts = [g[k] for g in fam[:-1] for k in (1, 4)] + fam[-1][:6]
        for q in firsts[:30 if tier == "quick" else 150]:
            one = Rac(rac.repo, data_home=home)
            try:
                v = val(one.ask({"cmd": "query", "q": "(" + q + ")", "describe": False}))
            finally:
                one.close()
            rep.ran(("isolation", q), True)
            if v != a_f[q]:
                rep.fail("a query gives another result in isolation than after other queries on the same database", query="(" + q + ")", expected=str(v)[:150] + " (first query of a fresh process)", actual=str(a_f[q])[:150])
    finally:
        shutil.rmtree(home, ignore_errors=True)
    return [rep]


STANDINS["C18"] = c18


def c19(rac, units, tier, seed):
    """The real binary against the library results: expected stdout is assembled HERE from the library's (value, unit) by the rules of the
    property text; only the renderings of a number and of a unit are taken from the library (Rational::display is C08's subject)."""
    import tempfile, shutil
    from .rac import build_cli, run_cli
    rep = Report("C19 the `any` binary (argument parsing, Db::open, result loop, Display impls, codespan diagnostics) around the proved `Ok(value)` arm",
                 "queries of 1-4 results (values with and without units, numerator-only / denominator-only / empty units, value one, facts, evaluation errors in every position), each run with and without --exact; stdout compared line by line")
    rnd = random.Random(seed)
    vals = ["1", "2", "0", "-1", "1/3", "2/3", "10/4", "-7/2", "0.5", "1.0", "123456789012345678901234567890", "1/7", "1e-20", "22/7", "1e15", "1/1024", "3.14159265358979323846", "100%", "1/3*3"]
    uns = ["", " m", " km", " s", " decade", " decades", " m/s", " km/s^2", "/s", " s^-1", " m^2", " kg*m/s^2", " N", " J/s", "/(m*s)", " mol/m^3", " btu", " ft", " °C", " h", " day", " mph", " B", " GiB/s", " m^-1 s^-1"]
    # one query (at least) per kind of evaluation error the library can report on input that parses
    errs = ["1/0", "1 m + 1 s", "1 m to s", "nosuchfunction(1)", "round(1, 2, 3)", "0^-1", "1 m^2 + 1 m", "1 m/°C to m/K", "1 °C * 1 °C", "1e99999999999 m", "1 m^99999999999",
            "2 m^", "round()", "2 m^x", "1 m^2^3", "xyzzy plugh qqq", "floor(1, 2)", "1 km*mm", "2 2 m", "2 ^ (1 m)", "2 ^ 0.5", "sin(1/0)"]
    facts = ["speed of light", "earth mass", "c", "population of sweden", "distance to the moon"]
    singles = []
    for v in vals:
        for u in (uns if tier != "quick" else rnd.sample(uns, 7)):
            singles.append(v + u)
    singles += ["1 " + u.strip() for u in uns if u.strip() and not u.startswith("/")] + ["(" + f + ")" for f in facts] + errs
    # pluralisation asks whether the VALUE is one: unit fractions, minus one, one written as a quotient, with units whose plural differs
    for u in ("decade", "century", "millenium", "btu", "decade/s"):
        singles += [f"{v} {u}" for v in ("0.5", "0.25", "1.5", "-1", "1.0", "1e0", "0.1e1", "2", "0", "-0.5")] + [f"1 {u} / 3", f"3 {u} / 3", f"2 {u} / 2", f"1 {u} * 1", f"1 {u} * 2"]
    singles += ["1 decade", "2 decade", "1 decade/s", "2 decade/s", "1 s/decade", "-1 decade", "1.0 decade", "0 decade", "1/1 decade", "2/2 m", "1 m/m", "(1 m)/(1 m)", "1 m * 1/m"]
    multis = []
    for _ in range(40 if tier == "quick" else 600):
        k = rnd.choice([2, 3, 3, 4])
        parts = [rnd.choice(errs) if rnd.random() < 0.35 else rnd.choice(singles) for _ in range(k)]
        multis.append(" ".join("(" + x + ")" for x in parts))
    multis += ["(1/0) (1/0)", "(1/0) (2 m) (1/0)", "(1 m) (1/0)", "(1/0) (1 m)"]
    queries = singles + multis
    binary = build_cli(rac.repo)
    os.makedirs("/var/tmp", exist_ok=True)
    home = tempfile.mkdtemp(prefix="anything-verif-c19-", dir="/var/tmp")
    try:
        # the library side is asked on the SAME on-disk database the binary opens (two separately built indexes may order equal-score
        # fact matches differently, which is C14's subject, not C19's)
        from .rac import Rac
        lib = Rac(rac.repo, data_home=home)
        try:
            ans = lib.ask_many_guarded([{"cmd": "query", "q": q, "describe": False} for q in queries], chunk=100, per_cmd_s=3.0)
        finally:
            lib.close()
        for q, a in zip(queries, ans):
            if a is None or "results" not in a:
                rep.ran(("skipped", q), False)      # panics / parse errors / hangs of the library itself are C11's subject
                continue
            for exact in (True, False):
                try:
                    out, code, err = run_cli(binary, home, (["--exact"] if exact else []) + ["--", q])
                except Exception as e:
                    rep.fail("the binary does not finish", query=q, expected="output", actual=repr(e)[:200])
                    continue
                lines = out.split("\n")
                want_desc = []
                pos, bad = 0, None
                for r in a["results"]:
                    if "ok" in r:
                        o = r["ok"]
                        n, d = int(o["value"]["n"]), int(o["value"]["d"])
                        if exact:
                            number = f"{n}/{d}" if d != 1 else f"{n}"
                        else:
                            number = o.get("dec12")
                        if number is None or o.get("unit_plural") is None:
                            bad = "skip"
                            break
                        has_num = any(int(e[1]) > 0 for e in o["unit"])
                        # pluralisation concerns the single numerator unit: what follows `/` reads the same in both renderings, and a
                        # unit without exactly one numerator unit has one rendering only (DESIGN 6.0)
                        up, us = o["unit_plural"], o["unit_singular"]
                        nnum = sum(1 for e in o["unit"] if int(e[1]) > 0)
                        if up.partition("/")[2] != us.partition("/")[2] or (nnum != 1 and up != us):
                            rep.fail("a unit other than the single numerator unit is pluralised", query=q, expected=f"`{us}` in both renderings" if nnum != 1 else "the same text after `/`", actual=f"plural rendering `{up}`, singular `{us}`")
                        unit = o["unit_plural"] if F(n, d) != 1 else o["unit_singular"]
                        want = number + (" " if has_num else "") + unit
                        want_desc.append(want)
                        if pos >= len(lines) or lines[pos] != want:
                            bad = (want, lines[pos] if pos < len(lines) else "<end of output>")
                            break
                        pos += 1
                    else:
                        msg = r["err"]["msg"].split("\n")[0]
                        want = "error: " + msg
                        want_desc.append(want + " ...")
                        if pos >= len(lines) or lines[pos] != want:
                            bad = (want, lines[pos] if pos < len(lines) else "<end of output>")
                            break
                        pos += 1
                        # the rest of the diagnostic: up to and including the empty line codespan ends it with
                        while pos < len(lines) and lines[pos] != "":
                            pos += 1
                        pos += 1
                if bad == "skip":
                    rep.ran(("skipped", q), False)
                    continue
                rep.ran(("cli", q, exact), True, dict(query=q, exact=exact) if len(rep.samples) < 6 else None)
                if bad is None and [l for l in lines[pos:] if l != ""]:
                    bad = ("<end of output>", lines[pos])
                if bad is None and code != 0:
                    bad = ("exit status 0", f"exit status {code}: {err[-200:]}")
                if bad is not None:
                    rep.fail("the binary prints something else than the library computed" + (" (--exact)" if exact else ""), query=q, expected=bad[0], actual=bad[1], cli=(["--exact"] if exact else []) + ["--", q])
        # read-back of the unit text (independent of Compound's Display impl): the unit as printed for the value one (singular names),
        # with superscripts spelled ^n and `⋅` spelled `*`, re-read by `str::parse::<Compound>` (in the unit grammar everything after
        # `/` divides), must be the unit the library computed -- names, prefixes and powers.  Plural names are not read back: the unit
        # grammar reads e.g. `btus` as btu⋅s (seen on the pinned tree; no listed property speaks of re-reading printed plurals).
        sup = {ord(a): b for a, b in zip("⁰¹²³⁴⁵⁶⁷⁸⁹⁻", "0123456789-")}
        seen = {}
        for q, a in zip(queries, ans):
            for r in (a or {}).get("results", []) if a else []:
                o = r.get("ok")
                if o and o.get("unit_singular") is not None:
                    seen.setdefault(o["unit_singular"], (q, o["unit"]))
        lib = Rac(rac.repo, data_home=home)
        try:
            for txt, (q, unit) in sorted(seen.items()):
                if txt == "":
                    ok, got = (unit == []), "empty text"
                else:
                    t2 = re.sub(r"[⁰¹²³⁴⁵⁶⁷⁸⁹⁻]+", lambda m: "^" + m.group(0).translate(sup), txt).replace("⋅", "*")
                    if t2.startswith("/"):
                        t2 = "1" + t2
                    b = lib.ask({"cmd": "compound", "s": t2})
                    got = t2 + " => " + json.dumps(b.get("ok", {}).get("unit", b), ensure_ascii=False)
                    ok = "ok" in b and sorted(map(str, b["ok"]["unit"])) == sorted(map(str, unit))
                rep.ran(("readback", txt), True)
                if not ok:
                    rep.fail("the printed unit does not read back as the unit the library computed", query=q, expected=f"`{txt}` denotes {json.dumps(unit)}", actual=got)
        finally:
            lib.close()
    finally:
        shutil.rmtree(home, ignore_errors=True)
    return [rep]


STANDINS["C19"] = c19


def register(prop):
    def deco(fn):
        STANDINS[prop] = fn
        return fn
    return deco


# ---------------------------------------------------------------------------------------------
# driver


def known_matches(v, known_p):
    """A stand-in violation is suppressed only if a listed finding names exactly this query (or its declared family regex)."""
    q = v.get("query", "")
    for k in known_p:
        w = k.get("witness", {})
        if q and q == w.get("query"):
            return k
        if q and q in (k.get("queries") or ()):
            return k
        fam = k.get("family_regex")
        if fam and q and re.search(fam, q):
            return k
    return None


def run(prop, tier, seed, repo, known_p):
    fn = STANDINS.get(prop)
    if fn is None:
        return dict(standins=[], evaluations=0, distinct_nontrivial=0, violations=[], samples=[], rule="no stand-in registered")
    try:
        rac = Rac(repo)
    except HarnessError as e:
        return dict(error=str(e), violations=[], standins=[])
    try:
        units = Units(repo)
        reps = fn(rac, units, tier, seed)
        if tier == "thorough" and prop == "C11":
            try:
                rrel = Rac(repo, release=True)
                reps += fn(rrel, units, tier, seed, profile="release")
                rrel.close()
            except TypeError:
                pass
    except HarnessError as e:
        what = "the real library does not terminate on a stand-in input" if "did not answer" in str(e) else "harness process died (abort or stack overflow in the real library)"
        return dict(error=str(e), violations=[dict(check=f"{prop}: {what}", detail=str(e))], standins=[])
    finally:
        rac.close()
    violations = []
    suppressed = []
    for r in reps:
        r.violations = r.all_violations
        for v in r.violations:
            k = known_matches(v, known_p)
            if k is not None:
                suppressed.append(dict(finding=k["finding_id"], query=v.get("query")))
            else:
                violations.append(v)
    samples = [s for r in reps for s in r.samples][:10]
    violations = violations[:25]
    return dict(standins=[r.as_dict() for r in reps], evaluations=sum(r.evaluations for r in reps),
                distinct_nontrivial=sum(len(r.nontrivial) for r in reps), violations=violations, suppressed=suppressed,
                samples=samples, rule="; ".join(f"{r.name}: {r.bound}" for r in reps), exhaustive=False)


def _query_with_timeout(repo, q, timeout_s):
    """-> answer dict, or None when the real library did not answer in time (the process is killed)"""
    import threading
    rac = Rac(repo)
    box = {}

    def work():
        try:
            box["a"] = rac.query(q)
        except Exception as e:
            box["a"] = {"panic": f"harness died: {e}"}
    t = threading.Thread(target=work, daemon=True)
    t.start()
    t.join(timeout_s)
    if t.is_alive():
        rac.p.kill()
        t.join(5)
        return None
    rac.close()
    return box.get("a")


def replay_known(known_list, repo):
    """-> {finding_id: True if the recorded witness still misbehaves on the real code}"""
    out = {}
    if not known_list:
        return out
    try:
        rac = Rac(repo)
    except HarnessError:
        return {k["finding_id"]: True for k in known_list}
    try:
        for k in known_list:
            w = k.get("witness", {})
            if "timeout_s" in w:
                out[k["finding_id"]] = _query_with_timeout(repo, w["query"], w["timeout_s"]) is None
            elif "query" in w:
                st = single_value(rac.query(w["query"]))
                got = str(st[1]) if st[0] in ("ok", "err") else st[0]
                if st[0] == "ok" and st[2].get("unit_str"):
                    got = f"{st[1]} {st[2]['unit_str']}"
                out[k["finding_id"]] = (got == w.get("actual"))
            else:
                out[k["finding_id"]] = True
    finally:
        rac.close()
    return out


def replay(prop, path, repo):
    d = json.load(open(path))
    w = d.get("witness")
    print(f"replay {path}: obligation {d.get('obligation')!r}")
    if not w:
        print("no concrete failing input was found for this obligation (no-failing-input-found); verifier output:")
        print(d.get("verifier_output", "")[:4000])
        return 1
    if w.get("cli") is not None:
        import tempfile, shutil
        from .rac import build_cli, run_cli
        home = tempfile.mkdtemp(prefix="anything-verif-replay-", dir="/var/tmp")
        try:
            out, code, err = run_cli(build_cli(repo), home, w["cli"])
        finally:
            shutil.rmtree(home, ignore_errors=True)
        print(json.dumps(dict(command=["any"] + w["cli"], expected_line=w.get("expected"), previously=w.get("actual"), stdout_now=out, exit_status=code), ensure_ascii=False)[:3000])
        return 0 if w.get("expected") in out.split("\n") and w.get("actual") not in out.split("\n") else 1
    rac = Rac(repo)
    try:
        if w.get("cmd") is not None:
            a = rac.ask(w["cmd"])
            print(json.dumps(dict(command=w["cmd"], expected=w.get("expected"), previously=w.get("raw"), now=a), ensure_ascii=False)[:3000])
            return 1 if a == w.get("raw") else 0
        if w.get("derived_id") is not None:
            a = rac.ask({"cmd": "derived_id", "id": w["derived_id"]})
            print(json.dumps(dict(derived_id=w["derived_id"], previously=w.get("actual"), now=a)))
            return 1 if a.get("decoded") and a.get("id_back") != w["derived_id"] else 0
        q = w.get("query")
        if q is not None:
            ans = rac.query(q)
            print(json.dumps(dict(query=q, expected=w.get("expected"), previously=w.get("actual"), now=ans), ensure_ascii=False)[:3000])
            st = single_value(ans)
            now = str(st[1]) if st[0] in ("ok", "err") else st[0]
            return 1 if now == w.get("actual") or (w.get("expected") not in (now, None)) else 0
    finally:
        rac.close()
    return 1
