"""Property -> units / stand-ins / level table (mirrors DESIGN.md §1)."""

PROPS = {
    "C01": dict(forbid_seq=[dict(cid="evalrec.bias_unread", file="src/eval.rs", seq=".acceleration_bias", what="the recursive calls of eval() in the OPERATION arm are assumed to be independent of `bias`: the field `acceleration_bias` is written and never read")], units=["RAT", "EVALOPS", "EVALARMS", "EVALOPFOLD"], standin=True, level="proof",
                explanation="16 Rational operator impls, recip, pow, eval::{add,sub,mul,div,pow} on plain numbers (exact field operations, unbounded pow loop) proved by Verus; the OPERATION fold / NUMBER / PERCENTAGE arms of eval() are a bounded stand-in"),
    "C02": dict(forbid_seq=[dict(cid="evalrec.bias_unread", file="src/eval.rs", seq=".acceleration_bias", what="the recursive call of eval() on the operand of a cast is assumed to be independent of `bias`: the field `acceleration_bias` is written and never read")], units=["POWERS", "COMPOUND", "EVALOPS", "EVALOPFOLD"], standin=True, level="proof",
                explanation="Powers::insert representation invariant, base_units, Compound::factor <=> same dimensions, eval::{add,sub} verdict / error mapping / unit adoption proved by Verus; OP_CAST arm bounded"),
    "C03": dict(forbid_seq=[dict(cid="evalrec.bias_unread", file="src/eval.rs", seq=".acceleration_bias", what="the recursive call of eval() on the operand of a cast is assumed to be independent of `bias`: the field `acceleration_bias` is written and never read")], units=["RAT", "COMPOUND", "TABLES", "EVALOPFOLD"], standin=True, level="proof",
                explanation="factor value law v' = v*scale(src)/scale(dst), apply_conversion, Rational::pow, prefix constants, conversion laws as lemmas; OP_CAST arm bounded"),
    "C04": dict(units=["COMPOUND", "EVALOPS"], standin=True, level="proof",
                explanation="Compound::mul / reconstruct / inner_match / pow preserve (value*scale, dims); eval::{mul,div,pow}; bases_match verified after R15 (Iterator::all inlined)"),
    "C05": dict(forbid_seq=[dict(cid="evalwithunit.bias_unread", file="src/eval.rs", seq=".acceleration_bias", what="the recursive call of eval() in the WITH_UNIT arm is assumed to be independent of `bias`: the field `acceleration_bias` is written and never read")], units=["TABLES", "COMPOUND", "EVALUNIT", "EVALWITHUNIT"], standin=True, level="proof",
                explanation="dimension closure and conversion fraction of each of the 78 derived units and the 21 prefix constants against standards.toml"),
    "C10": dict(units=["RAT", "EVALOPS"], standin=True, level="proof",
                explanation="Rational::{floor,ceil,round}, builtin::{one,floor,ceil,round} against floor/ceil/half-away-from-zero definitions; FN_CALL arm bounded"),
    "C13": dict(units=["COMPOUND", "EVALOPS"], standin=True, level="proof",
                explanation="field laws as lemmas over the proved postconditions of eval::{add,sub,mul,div}"),
    "C12": dict(units=["LEXER", "PARSER", "GRAMMAR"], kani="leaves", standin=True, level="proof",
                explanation="Lexer::next / next_escape / consume_* : progress, non-empty, contiguous, char-boundary, terminating for every string (Verus, against the str model); Parser methods keep leaves ++ buffer == lexer history; every grammar function terminates, never gets a builder error, and root()/parse_root attribute every lexed token to exactly one leaf; peek/peek2/step are trusted leaves (conformance-sampled)"),
    "C09": dict(forbid_seq=[dict(cid="evalrec.bias_unread", file="src/eval.rs", seq=".acceleration_bias", what="the recursive call of eval() on the operand of a cast is assumed to be independent of `bias`: the field `acceleration_bias` is written and never read")], units=["TABLES", "COMPOUND", "EVALOPFOLD"], standin=True, level="proof",
                explanation="CELSIUS offset constant and both FAHRENHEIT closures against the defining formulas (TABLES); apply_conversion Offset/Methods arms, check_offset, Compound::factor chain postcondition and offset guard, Compound::mul offset guard (COMPOUND); formulas, composition, inverse as lemmas over those contracts"),
    "C17": dict(units=[], kani="ids", standin=True, level="proof",
                explanation="Kani function contract on the real id_to_derived (every u32 id decodes to a unit carrying that id), every Derived static decodes through its own id to itself, ids equal the pinned list; serde derive output is a bounded stand-in"),
    "C07": dict(units=["FROMSTR", "LEXER", "EVALARMS"], standin=True, level="proof",
                explanation="impl FromStr for Rational proved against an independent literal grammar (spec/lit_spec.rs): Ok(q) => q is exactly the number the byte string spells; every literal of the grammar with an exponent <= u32::MAX is accepted; unbounded loops closed by invariants; NUMBER/PERCENTAGE arms of eval() and the lexer's choice of extent are bounded-checked"),
    "C06": dict(units=["PARSER", "GRAMMAR"], standin=True, level="exploration",
                explanation="bounded enumeration of operator sequences x parenthesisations x blank layouts against an independent precedence-climbing evaluator; proved components: op() priority table, skip bookkeeping of Parser::{count_skip,skip,eat}, operation()/value()/call_arguments() skip contracts"),
    "C08": dict(units=["DISPLAYCORE", "DISPLAYFMT"], standin=True, level="proof",
                explanation="Display::fmt (dispatch on the magnitude; the small-fraction path with its leading-zero exponent and digit budget), format_whole and format_big are proved to write exactly small_log / whole_log / big_log into the formatter log: sign, digits of long division (frac_digits) or of the numeral of the integer part, at most `limit` after the first, the mark iff the remainder after the last printed digit is non-zero (or a cut-off integer digit is) and marks are wanted, the exponent; lemma_c08_* turn the logs into the property text (the text reads back to the value cut off toward zero at the last printed digit, mark iff non-zero digits were cut off). emit (digit step) and digits() proved in DISPLAYCORE. Assumed: BigInt::to_string is the decimal numeral, std Display impls of u8 / usize / char / BigInt; the characters produced from the events and digit limit 0 for values below one are covered by the bounded read-back stand-in only"),
    "C11": dict(units=["POWERS", "RAT", "COMPOUND", "EVALOPS", "EVALUNIT", "EVALARMS", "LEXER", "PARSER", "GRAMMAR", "FROMSTR", "DISPLAYCORE", "DISPLAYFMT", "EVALWITHUNIT", "EVALOPFOLD"], standin=True, level="proof",
                explanation="absence of overflow / failed assertion (former debug_assert!) / unwrap / out-of-bounds in every function under contract, under the stated bounds; error spans are token boundaries (LEXER + PARSER); eval() driver, Db::lookup, Display and the CLI are a bounded token-soup stand-in"),
    "C18": dict(units=["EVALFACT"], standin=True, level="proof",
                forbid_seq=[dict(cid="evalfact.query_rs_passes_descriptions_through", file="src/query.rs", seq="descriptions.", what="src/query.rs only stores and hands on the `descriptions` vector (field, parameter, struct initialiser): no method is called on it there"),
                            dict(cid="evalfact.query_rs_no_index", file="src/query.rs", seq="descriptions[", what="src/query.rs does not index into the `descriptions` vector")],
                frame_scan=dict(cid="evalfact.frame_scan", idents=["describe", "descriptions"], item_file="src/eval.rs", item="fn eval :: arm SENTENCE | WORD",
                                declared_in=["src/bin/", "src/query.rs"],
                                no_interior_mutability={"src/db.rs": ["Mutex", "RwLock", "RefCell", "Cell", "OnceCell", "OnceLock", "UnsafeCell", "AtomicBool", "AtomicUsize", "AtomicU64", "unsafe", "thread_local", "lazy_static"]},
                                what="`options.describe` is read and `descriptions` is written only inside the SENTENCE|WORD arm of eval() (syntactic scan of src/**/*.rs, comments excluded)"),
                explanation="the only site that reads `describe` and writes `descriptions` (SENTENCE|WORD arm of eval(), lifted by R16) is proved to return a value that is a function of the lookup result alone, to push exactly (phrase, constant used) iff describe is set, and to leave options / db / source unchanged; the frame (no other site) is a syntactic scan; Db::lookup is assumed to be a function of (db, phrase); recursion through eval() is bounded-checked"),
    "C19": dict(units=["CLIPRINT", "COMPOUND", "RAT"], standin=True, level="proof",
                cli_loop_scan=dict(cid="cli.loop_shape", file="src/bin/any.rs",
                                   what="main() runs `for value in anything::query(&parsed, ..) { match value { Ok(value) => {ARM} Err(e) => {.. term::emit(&mut out, &config, &files, &diagnostic)?; } } }` with no break / return / continue / panic in the loop, and `opts.exact` is the parsed flag (token-wise scan)"),
                explanation="the `Ok(value)` arm of the result loop of main() (lifted by R16, its write!/writeln! calls turned into calls on a writer shim by R17) is proved to emit exactly printed(value, exact): numerator [/ denominator iff it is not one] in exact mode, else the decimal rendering with limit 12 / exponent limit 12 / continuation mark; one space iff the unit has a positive power (Compound::has_numerator proved, R15); the unit with pluralisation iff value != 1; end of line.  The loop around the arm is pinned by a token-wise shape scan.  The characters the Display impls produce, argument parsing, Db::open and codespan are outside (assumed) and covered by the bounded stand-in that runs the real binary"),
}

COMMON_TRUST = [
    "Verus 0.2026.09.13 + bundled Z3, rustc 1.98.1; single-file mode (no linking): every dependency type is a shim with assumed contracts",
    "extraction rules of DESIGN.md §4: R1 attributes/doc comments stripped, visibility widened; R2 debug_assert -> static obligation; R3 break-value lowering; R4 `&a op &b` -> operator call; R5 for-desugaring; R6 outlining of iterator-adapter / fn-pointer expressions into assumed fns; R7 closure lifting; R8 nested fn hoisting; R9 trait-impl methods emitted as inherent methods / associated types spelled out; R10 type ascription; R11 fn renamed to dodge a Verus name clash; R12 match-arm guard / expression arm spelled as a block; R13 `mut` by-value parameter as an explicit local; R14 contract (ensures) written on a closure; R18 fn-pointer dispatch defunctionalised: `let op = match k { OP_ADD => add, .. }; op(span, a, b)` becomes a tag and `call_op(tag, span, a, b)`, a verified `match` on the tag calling the same-named functions (OPERATION arm); R16 the block of a match arm of eval() lifted to a named fn over its free variables (NUMBER, PERCENTAGE, SENTENCE|WORD, WITH_UNIT, OPERATION arms, the recursive call of eval() in the last being an assumed function of the node; eval() as a whole is outside Verus); R15 `iter.all(closure)` / `values().any(closure)` replaced by the body of the default method Iterator::all / ::any with the closure body at its single call (bases_match, has_numerator); R15 also: `for d in emit(..).take(n)` as the body of Take::next inlined over the lifted closure emit_step (format_whole); R5 also `for _ in a..b` as a counting while loop; R17 `fmt::Display::fmt(x, f)` / `x.fmt(f)` spelled `f.put(x)` (generic over what the argument type shows); R17 `write!(w, FMT, a..)` / `writeln!` spelled as a method call `w.put<k>(FMT, newline, a..)` on a writer shim that logs the piece (lifted `Ok(value)` arm of main())",
    "BigRational viewed as `real`, BigInt as `int` (every operation used is closed on Q); i32/u32/usize arithmetic keeps its overflow obligations (discharged under the stated bounds, never treated as mathematical)",
]

SHIM_TRUST = {
    "shims/btreemap.rs": "assumed contracts for std BTreeMap (view Map<K,V>, key-ordered entries(), entry/VacantEntry/OccupiedEntry prophecy-style, get/get_mut/insert/iter/into_iter/len/is_empty/clear/clone)",
    "shims/std_specs.rs": "assume_specification for Option::<&T>::copied, i32::abs (requires > MIN), i32::signum",
    "shims/unit_types.rs": "DerivedVtable is opaque (fn pointers unsupported); key identity of Unit::Derived is spec equality, faithful because Derived compares by id and ids identify units (C17)",
    "shims/base.rs": "num shim: ~70 assumed contracts for BigInt/BigRational (new requires denom != 0, exact field ops, recip requires != 0, trunc toward zero, round half away from zero, floor, ceil, Pow<i32> with reciprocal for negative exponents, numer/denom reduced with positive denominator, to_i32 = truncate-then-fit, From<u32/i32/u128>)",
    "shims/vec_iter.rs": "by-value Vec iteration yields the elements in order",
    "shims/unit_shim.rs": "ConversionMethods opaque; R6 outlines call_methods_to/from, call_vtable_powers (adds power*derived_dim, assumed-by-table: proved per closure in unit TABLES), Unit::conversion = table entry with non-zero fraction (assumed-by-table)",
    "shims/peekable_bytes.rs": "std Peekable<Bytes>: peek/next yield the remaining bytes in order (assume_specification); R6 outline of `number.bytes().peekable()` yields the UTF-8 bytes of the str; str_bytes is uninterpreted",
    "shims/syntree_node.rs": "syntree Node/Children as a sequence of UNode {kind, span, int, units, units_ok}; R6 outlines: str::parse::<i32> on a node's text (int), the text of a WORD node, &str -> Box<str>; UnitParser (4-line wrapper over the logos-generated generated::unit::parse) assumed to yield the node's (prefix, unit) pairs in order; Result::transpose",
    "shims/query_shim.rs": "Query::source(span) returns the query text between the span's offsets (str slicing; assumed)",
    "shims/fmt_shim.rs": "std::fmt::Formatter as a log of events: write_char / write_str record the character / literal, `Display::fmt` of a u8 digit, of a BigInt and `write!(f, \"e{}\", exp)` record WHICH value is shown, not its characters (std / num-bigint Display impls are assumed to print the decimal numeral); a failed write leaves the log unspecified and the function returns the error",
    "shims/numeral_shim.rs": "num-bigint: `BigInt::to_string()` of v >= 1 is a non-empty digit string without a leading zero that spells v and whose length fits usize (axiom_numeral); String::chars().peekable() replaced by a sequence-viewed iterator (next / peek / clone / count)",
    "shims/cli_out.rs": "the output stream of src/bin/any.rs as a log of pieces (format string, what each argument shows, newline): write!/writeln! become put<k> calls (R17); the characters produced by the Display impls of BigInt (num-bigint), rational::Display (C08) and compound::Display (unit names, pluralisation, exponents) are NOT modelled; a failed write leaves the log unspecified and the arm returns the error",
    "shims/node_children.rs": "syntree child lists as the WITH_UNIT arm walks them: children() yields all children, next() the next child, next_node() the next non-token child (spelled next_any_node, R11, because Children::next_node is already specified over the node view used by eval::unit); the node view of a node's children is a function of the node",
    "shims/syntree_span.rs": "syntree::Span<u32> as plain data; LookupError / ParseIntError / syntree::Error opaque",
}

ITEM_TRUST = {}


def trusted_base(prop, trusted_items, rules, includes=()):
    out = list(COMMON_TRUST)
    seen = set()
    for inc in includes:
        key = inc.split(" ")[0]
        if key in SHIM_TRUST and key not in seen:
            seen.add(key)
            out.append(f"{key}: {SHIM_TRUST[key]}")
        elif inc.endswith("in its own unit)") and inc not in seen:
            seen.add(inc)
            out.append(f"{inc}")
    for it in trusted_items:
        for k, v in ITEM_TRUST.items():
            if it["item"].endswith(k) and v not in out:
                out.append(v)
    return out
