"""Property -> units / stand-ins / level table (mirrors DESIGN.md §1)."""

PROPS = {
    "C02": dict(units=["POWERS"], standin=False, level="proof",
                explanation="Powers::insert representation invariant (no zero entry) and whole-view postcondition"),
}

COMMON_TRUST = [
    "Verus 0.2026.09.13 + bundled Z3, rustc 1.98.1; single-file mode (no linking): every dependency type is a shim with assumed contracts",
    "extraction rules R1-R9 of DESIGN.md §4 (attribute stripping, debug_assert -> static obligation, break-value lowering, operator-call form, for-desugaring, outlining, closure lifting, nested-fn hoisting, associated-type spelling)",
]

SHIM_TRUST = {
    "shims/btreemap.rs": "assumed contracts for std BTreeMap (view Map<K,V>, key-ordered entries(), entry/VacantEntry/OccupiedEntry prophecy-style, iter/into_iter/get/insert/len/is_empty/clear/clone)",
    "shims/std_specs.rs": "assume_specification for Option::<&T>::copied",
    "shims/unit_types.rs": "DerivedVtable is opaque (fn pointers unsupported); key identity of Unit::Derived is spec equality, faithful because Derived compares by id and ids identify units (C17)",
}


def trusted_base(prop, trusted_items, rules):
    out = list(COMMON_TRUST)
    out += [f"{k}: {v}" for k, v in SHIM_TRUST.items()]
    for it in trusted_items:
        out.append(f"assumed contract (external_body): {it['file']} :: {it['item']}")
    return out
