"""Per-property check driver: `check <PROP> [--tier quick|thorough]`.

exit 0  property held on everything explored (KNOWN-FINDING lines allowed)
exit 1  + `VIOLATION property=<id> replay=<path>`  a named obligation failed / a concrete failing input was found
exit 2  undecided (lost anchor, unsupported construct, rlimit, vacuous contract): never an alarm
"""

import argparse
import concurrent.futures as cf
import hashlib
import json
import os
import re
import sys
import time

from .gen import VERIF
from .run import run_unit
from . import props as P

REPO = os.environ.get("VERIF_REPO", "/repo")
EVID = os.path.join(VERIF, "evidence")
REPLAY = os.path.join(VERIF, "replay")


def load_known():
    path = os.path.join(VERIF, "known_findings.jsonl")
    known, fixed = [], []
    if os.path.exists(path):
        for line in open(path, encoding="utf-8"):
            line = line.strip()
            if not line or line.startswith("#"):
                continue
            if line.startswith("fixed:"):
                fixed.append(line)
                continue
            known.append(json.loads(line))
    return known, fixed


def attributed(failure, gen, prop):
    tags = failure.get("tags") or []
    if tags:
        return prop in tags
    # implicit obligation: attribute to the item's props
    item = failure.get("item")
    for it in gen.items:
        if f"{it['file']} :: {it['selector']}" == item:
            return prop in (it["props"] or [])
    return False


def run_units(units, tier):
    """Run normal + canary for each unit in parallel. Returns {unit: (gen, res, cres)}"""
    out = {}
    nthreads = max(2, 16 // max(1, 2 * len(units)))
    with cf.ThreadPoolExecutor(max_workers=8) as ex:
        futs = {}
        for u in units:
            futs[ex.submit(run_unit, u, REPO, False, None, None, nthreads)] = (u, "main")
            futs[ex.submit(run_unit, u, REPO, True, None, None, nthreads)] = (u, "canary")
        tmp = {}
        for f in cf.as_completed(futs):
            u, kind = futs[f]
            tmp[(u, kind)] = f.result()
    for u in units:
        gen, res = tmp[(u, "main")]
        # A verdict other than "verified" is confirmed before it is believed: the unit is re-run with a 4x larger resource limit and
        # two other solver seeds.  Any run that discharges every obligation is a valid proof (soundness does not depend on the seed),
        # so proof brittleness (a hint that stops working after an unrelated edit) cannot raise an alarm; a real defect fails every run.
        only_rlimit = res["undecided"] and all(x["reason"] == "rlimit" for x in res["undecided"])
        if res["status"] == "failed" or only_rlimit:
            first = res
            for attempt, seed_ in enumerate((None, 17, 4242)):
                extra = ["--smt-option", f"smt.random_seed={seed_}"] if seed_ is not None else None
                gen2, res2 = run_unit(u, REPO, False, 240, f"retry{attempt}", None, extra)
                res2["retries"] = attempt + 1
                if res2["status"] == "verified":
                    res = res2
                    res["first_attempt"] = dict(status=first["status"], failures=[f["obligation"] for f in first["failures"]][:5])
                    break
                if first["status"] != "failed" and res2["status"] == "failed":
                    first = res2
            else:
                res = first if first["status"] == "failed" else res2
                res["retries"] = 3
        out[u] = (gen, res, tmp[(u, "canary")][1])
    return out


def main(argv=None):
    ap = argparse.ArgumentParser()
    ap.add_argument("prop")
    ap.add_argument("--tier", default=os.environ.get("VERIF_TIER", "quick"))
    ap.add_argument("--replay", default=None)
    args = ap.parse_args(argv)
    prop = args.prop
    tier = "thorough" if args.tier == "thorough" else "quick"
    seed = int(os.environ.get("VERIF_SEED", "0") or 0)
    t0 = time.time()
    if prop not in P.PROPS:
        print(f"unknown or not-applicable property {prop}")
        return 2
    cfg = P.PROPS[prop]
    os.makedirs(EVID, exist_ok=True)
    os.makedirs(REPLAY, exist_ok=True)
    evid_path = os.path.join(EVID, f"{prop}.json")
    if os.path.exists(evid_path):
        os.remove(evid_path)

    if args.replay:
        from . import standin
        return standin.replay(prop, args.replay, REPO)

    known, fixed = load_known()
    known_p = [k for k in known if k["property"] == prop]

    results = run_units(cfg["units"], tier)

    violations = []   # dict(obligation, detail, unit)
    undecided = []
    functions_under_contract = []
    trusted_items = []
    clause_ids = []
    rules = []
    solver_time = {}
    obligations = 0
    discharged = 0
    canary_ok = []
    fn_results = []
    suppressed = []
    lemma_ids = []
    for u, (gen, res, cres) in results.items():
        solver_time[u] = dict(wall_s=round(res.get("wall_s", 0), 2), smt_s=round(res.get("solver_time_s", 0), 2))
        for x in res["undecided"]:
            undecided.append(dict(unit=u, **{k: x.get(k) for k in ("reason", "message", "item")}, rendered=x.get("rendered", "")[:1500]))
        if gen is None:
            continue
        rules.extend(gen.rules)
        nontrusted = [it for it in gen.items if not it["trusted"] and it["kind"] == "fn"]
        for it in gen.items:
            rec = dict(unit=u, file=it["file"], item=it["selector"], lines=it["lines"], sha256=it["sha256"], kind=it["kind"])
            (trusted_items if it["trusted"] else functions_under_contract).append(rec)
        # canary: every non-trusted fn must fail its canary
        cfail = {f["item"] for f in cres["failures"] if f.get("canary")}
        if cres["undecided"] and not cfail:
            undecided.append(dict(unit=u, reason="canary-tooling", message="canary run did not complete: " + cres["undecided"][0]["message"][:200]))
        else:
            for it in nontrusted:
                iid = f"{it['file']} :: {it['selector']}"
                if iid in cfail:
                    canary_ok.append(iid)
                elif not cres["undecided"]:
                    undecided.append(dict(unit=u, reason="vacuous", message=f"canary assert(false) verified in {iid}: contradictory precondition"))
        # failures
        failed_clauses = set()
        for f in res["failures"]:
            if not attributed(f, gen, prop):
                continue
            kf = match_known(f, known_p)
            if kf is not None:
                suppressed.append((kf, f))
                continue
            violations.append(dict(unit=u, obligation=f["obligation"], kind=f["kind"], site=f.get("site"), clause=f.get("clause"), rendered=f["rendered"]))
            if f.get("clause"):
                failed_clauses.add((f.get("clause_item"), f["clause"]))
        # obligation accounting: explicit clauses relevant to this property + one safety bundle per verified fn item serving it
        for c in gen.clauses:
            if c["trusted"]:
                continue
            if prop in (c["tags"] or []):
                obligations += 1
                clause_ids.append(c["cid"])
                if (c["item"], c["cid"]) not in failed_clauses and res["status"] in ("verified", "failed"):
                    discharged += 1
        failed_items = {f["item"] for f in res["failures"]}
        for it in nontrusted:
            if prop in (it["props"] or []):
                iid = f"{it['file']} :: {it['selector']}"
                obligations += 1
                if iid not in failed_items and res["status"] in ("verified", "failed"):
                    discharged += 1
        fn_results.extend(dict(unit=u, **f) for f in res["functions"] if f["time_s"] > 0.5)
        # property-level lemmas (spec/<prop>_lemmas.rs): each is one obligation over the contracts above
        for f in res["functions"]:
            nm = f["function"].split("::")[-1]
            if nm.startswith(f"lemma_{prop.lower()}_"):
                obligations += 1
                lemma_ids.append(nm)
                if f["success"] and res["status"] in ("verified", "failed"):
                    discharged += 1

    # syntactic frame condition (C18): the identifiers may occur, as code, only inside the item under contract (and where they are declared)
    if cfg.get("frame_scan"):
        fs = cfg["frame_scan"]
        from .extract import SourceFile, LostAnchor as _LA
        import glob as _glob
        hits = []
        try:
            for path in sorted(_glob.glob(os.path.join(REPO, "src", "**", "*.rs"), recursive=True)):
                rel = os.path.relpath(path, REPO)
                if any(rel.startswith(x) for x in fs["declared_in"]):
                    continue
                sf = SourceFile(rel, open(path, encoding="utf-8").read())
                lo = hi = -1
                if rel == fs["item_file"]:
                    it = sf.find(fs["item"])
                    lo, hi = it.start, it.end
                for k, t in enumerate(sf.toks):
                    if t.kind == "ident" and t.text in fs["idents"] and not (lo <= k <= hi):
                        hits.append(f"{rel}:{sf.line_of(t.start)} `{t.text}`")
        except _LA as e:
            hits.append(f"lost anchor: {e}")
        # the assumed contract "Db::lookup(&self, ..) is a function of (database, phrase)" rests on `&self` being immutable: no interior mutability
        for rel2, bad in fs.get("no_interior_mutability", {}).items():
            try:
                sf2 = SourceFile(rel2, open(os.path.join(REPO, rel2), encoding="utf-8").read())
                for t in sf2.toks:
                    if t.kind == "ident" and t.text in bad:
                        hits.append(f"{rel2}:{sf2.line_of(t.start)} `{t.text}` (interior mutability / global state next to an assumed pure lookup)")
            except OSError as e:
                hits.append(f"lost anchor: {e}")
        obligations += 1
        clause_ids.append(fs["cid"])
        if hits:
            undecided.append(dict(unit="frame-scan", reason="needs-contract", message=f"[{fs['cid']}] {fs['what']}: also found at {', '.join(hits[:6])} -- that site has no contract, so the frame condition is undecided"))
        else:
            discharged += 1

    # assumption scans: a token sequence that must not occur (an assumed contract rests on its absence)
    for fz in cfg.get("forbid_seq", []):
        from .extract import SourceFile
        from .rusttok import TRIVIA as _TRIVIA2, norm as _norm2
        hits = []
        try:
            sf = SourceFile(fz["file"], open(os.path.join(REPO, fz["file"]), encoding="utf-8").read())
            sig = [t for t in sf.toks if t.kind not in _TRIVIA2]
            pat = _norm2(fz["seq"])
            for k in range(len(sig) - len(pat) + 1):
                if [t.text for t in sig[k:k + len(pat)]] == pat:
                    hits.append(f"{fz['file']}:{sf.line_of(sig[k].start)}")
        except OSError as e:
            hits.append(f"lost anchor: {e}")
        obligations += 1
        clause_ids.append(fz["cid"])
        if hits:
            undecided.append(dict(unit="assumption-scan", reason="needs-contract", message=f"[{fz['cid']}] {fz['what']}: `{fz['seq']}` found at {', '.join(hits[:4])} -- the assumed contract is no longer justified, so this part is undecided"))
        else:
            discharged += 1

    # syntactic shape of the result loop of main() (C19): what R16 drops around the lifted `Ok(value)` arm -- the loop and the `match` --
    # is pinned token-wise, so that "one `printed(value, exact)` per Ok result, a diagnostic per Err result, nothing aborts the loop" follows
    if cfg.get("cli_loop_scan"):
        from .extract import SourceFile, LostAnchor as _LA
        from .rusttok import match_close as _mc, TRIVIA as _TRIVIA, norm as _norm
        cs = cfg["cli_loop_scan"]
        probs = []
        try:
            sf = SourceFile(cs["file"], open(os.path.join(REPO, cs["file"]), encoding="utf-8").read())
            it = sf.find("fn main")
            toks = sf.toks
            sig = [k for k in range(it.start, it.end + 1) if toks[k].kind not in _TRIVIA]
            txt = [toks[k].text for k in sig]

            def find(pat, lo=0, hi=None):
                hi = len(txt) if hi is None else hi
                return [p for p in range(lo, hi - len(pat) + 1) if txt[p:p + len(pat)] == pat]
            fors = [p for p in find(["for"]) if p + 1 < len(txt) and txt[p + 1] != "<"]
            if len(fors) != 2 or txt[fors[0]:fors[0] + len(_norm("for value in anything::query(&parsed"))] != _norm("for value in anything::query(&parsed"):
                probs.append(f"main() is expected to hold the result loop `for value in anything::query(&parsed, ..)` and the description loop, found {len(fors)} `for`")
            else:
                p = fors[0]
                q = p
                while txt[q] != "{" or False:
                    if txt[q] in "([":
                        q = sig.index(_mc(toks, sig[q]))
                    q += 1
                body_lo, body_hi = q, sig.index(_mc(toks, sig[q]))
                inner = txt[body_lo + 1:body_hi]
                head = _norm("match value { Ok(value) => {")
                if inner[:len(head)] != head:
                    probs.append("the loop body does not start with `match value { Ok(value) => {`")
                else:
                    ok_open = body_lo + 1 + len(head) - 1
                    ok_close = sig.index(_mc(toks, sig[ok_open]))
                    r = ok_close + 1
                    if txt[r] == ",":
                        r += 1
                    eh = _norm("Err(e) => {")
                    if txt[r:r + len(eh)] != eh:
                        probs.append("the second arm of the loop's match is not `Err(e) => {`")
                    else:
                        err_open = r + len(eh) - 1
                        err_close = sig.index(_mc(toks, sig[err_open]))
                        tail = txt[err_close + 1:body_hi]
                        if [t for t in tail if t != ","] != ["}"]:
                            probs.append("the loop body holds more than the two-armed match")
                        errtxt = txt[err_open:err_close + 1]
                        need = _norm("term::emit(&mut out, &config, &files, &diagnostic)?")
                        if not any(errtxt[i:i + len(need)] == need for i in range(len(errtxt))):
                            probs.append("the Err arm does not emit the diagnostic with `term::emit(&mut out, &config, &files, &diagnostic)?`")
                        for must in (_norm("e.to_string()"), _norm("e.range()")):
                            if not any(errtxt[i:i + len(must)] == must for i in range(len(errtxt))):
                                probs.append(f"the Err arm does not use `{''.join(must)}` for the diagnostic")
                for bad in ("break", "return", "continue", "exit", "abort", "panic", "unwrap", "expect"):
                    if bad in inner:
                        probs.append(f"`{bad}` inside the result loop (a result could abort the remaining ones)")
                # the flag the arm reads is the parsed command line, never reassigned
                if len(find(_norm("opts.exact ="))) != len(find(_norm("opts.exact =="))):
                    probs.append("`opts.exact` is assigned in main()")
                if not find(_norm("let opts = Opts::from_args()")):
                    probs.append("`let opts = Opts::from_args()` not found")
        except (_LA, OSError, ValueError, IndexError) as e:
            probs.append(f"lost anchor: {e}")
        obligations += 1
        clause_ids.append(cs["cid"])
        if probs:
            undecided.append(dict(unit="cli-loop-scan", reason="needs-contract", message=f"[{cs['cid']}] {cs['what']}: {'; '.join(probs[:5])} -- the code around the lifted arm no longer has the shape the contract was written for, so this part is undecided"))
        else:
            discharged += 1

    # Kani side (function contract on the real function, loop-free full-domain harnesses on a scratch copy)
    kani_res = None
    if cfg.get("kani") == "leaves":
        from . import kani as K
        nb = 4 if tier == "quick" else 8   # 8 bytes = two characters of maximal width: everything peek / peek2 / step can read from pos
        kani_res = K.run_leaves(REPO, nb)
        solver_time["LEAVES(kani)"] = dict(wall_s=round(kani_res.get("wall_s", 0), 2), cbmc_s={h: r.get("time_s") for h, r in kani_res.get("harnesses", {}).items()})
        for x in kani_res["undecided"]:
            undecided.append(dict(unit="LEAVES(kani)", **x))
        for f in kani_res["failures"]:
            violations.append(dict(unit="LEAVES(kani)", obligation=f["obligation"], kind="Kani: FAILURE (bounded)", site="src/syntax/lexer.rs", clause=None, rendered=f"harness {f['harness']}: failed check {f['detail']}"))
        bounded_kani = dict(name="lexer leaves peek / peek2 / step against their assumed contracts (Kani, unwinding assertions on)", bound=f"every valid UTF-8 string of <= {nb} bytes at every character boundary, both escape flags", labelled="bounded (not proof)",
                            cases=sum(r.get("checks", 0) for r in kani_res.get("harnesses", {}).values()), status=kani_res["status"])
    else:
        bounded_kani = None
    if cfg.get("kani") == "ids":
        from . import kani as K
        kani_res = K.run_ids(REPO)
        solver_time["IDS(kani)"] = dict(wall_s=round(kani_res.get("wall_s", 0), 2), cbmc_s={h: r.get("time_s") for h, r in kani_res.get("harnesses", {}).items()})
        obligations += kani_res["obligations"]
        discharged += kani_res["discharged"]
        clause_ids.extend(["ids.id_to_derived.same_id", "ids.static.<78 statics>", "ids.pinned.<78 statics>"])
        for x in kani_res["undecided"]:
            undecided.append(dict(unit="IDS(kani)", **x))
        for f in kani_res["failures"]:
            w = None
            for cid in f.get("counterexample_ids", []):
                try:
                    from .rac import Rac
                    rc_ = Rac(REPO)
                    a = rc_.ask({"cmd": "derived_id", "id": cid})
                    rc_.close()
                    if a.get("decoded") and a.get("id_back") != cid:
                        w = dict(derived_id=cid, query=f"decode Unit::Derived({cid}) from CBOR and encode it again", expected=str(cid), actual=str(a.get("id_back")), answer=a)
                        break
                except Exception:
                    pass
            violations.append(dict(unit="IDS(kani)", obligation=f["obligation"], kind="Kani: FAILURE", site="src/generated/ids.rs", clause=None,
                                   rendered=f"harness {f['harness']}: failed check {f['detail']}; counterexample ids {f.get('counterexample_ids')}", witness=w, own_witness=True))
        functions_under_contract.append(dict(unit="IDS(kani)", file="src/generated/ids.rs", item="fn id_to_derived (annotated in place in a scratch copy, #[kani::ensures])", kind="fn"))

    # bounded stand-ins / witness search (E2)
    standin_report = None
    standin_viol = []
    if cfg.get("standin"):
        from . import standin
        standin_report = standin.run(prop, tier, seed, REPO, known_p)
        if standin_report.get("error"):
            undecided.append(dict(unit="E2", reason="standin-error", message=standin_report["error"][:500]))
        standin_viol = standin_report.get("violations", [])

    # known findings: replay each
    kf_lines = []
    if known_p:
        from . import standin
        still = standin.replay_known(known_p, REPO)
        for k in known_p:
            if still.get(k["finding_id"], True):
                kf_lines.append(f"KNOWN-FINDING: property={prop} {k['finding_id']}: {k['what']}")

    # decide
    rc = 0
    out_lines = []
    for i, v in enumerate(violations):
        witness = v.get("witness")
        if witness is None and standin_viol and not v.get("own_witness"):
            witness = standin_viol[0]
        rp = os.path.join(REPLAY, f"{prop}-{_slug(v['obligation'])}.json")
        payload = dict(property=prop, obligation=v["obligation"], kind=v["kind"], site=v["site"], unit=v["unit"],
                       verifier_output=v["rendered"], witness=witness,
                       note="failed proof obligation generated from /repo's current source; it is discharged on the pinned tree")
        json.dump(payload, open(rp, "w"), indent=1)
        tail = "" if witness else " no-failing-input-found"
        out_lines.append(f"VIOLATION property={prop} replay={rp} obligation={v['obligation']!r}{tail}")
        rc = 1
    if not violations:
        for j, w in enumerate(standin_viol[:5]):
            rp = os.path.join(REPLAY, f"{prop}-standin-{j}.json")
            json.dump(dict(property=prop, obligation=w.get("check"), witness=w, note="concrete failing input found by the bounded stand-in (E2) on the real code"), open(rp, "w"), indent=1)
            out_lines.append(f"VIOLATION property={prop} replay={rp} obligation={w.get('check')!r}")
            rc = 1
    if rc == 0 and undecided:
        rc = 2
    wall = time.time() - t0

    for l in kf_lines:
        print(l)
    for l in out_lines:
        print(l)
    for x in undecided[:8]:
        print(f"UNDECIDED property={prop} unit={x.get('unit')} reason={x.get('reason')}: {x.get('message','')[:300]}")
        if x.get("rendered") and os.environ.get("VERIF_VERBOSE"):
            print(x["rendered"])

    # evidence
    level = cfg["level"]
    includes = []
    for u, (gen, res, cres) in results.items():
        if gen is not None:
            for inc in (gen.includes or []):
                if inc not in includes:
                    includes.append(inc)
    trusted_base = P.trusted_base(prop, trusted_items, rules, includes)
    coverage = dict(
        obligations=obligations, discharged=discharged,
        checker_cmd=(f"verus build/<unit>.rs --output-json --time --multiple-errors 20 (units: {', '.join(cfg['units'])}; regenerated from {REPO} on this run) + canary run per unit" if cfg["units"] else "")
                    + (("; " if cfg["units"] else "") + kani_res.get("cmd", "cargo kani") + " (on a scratch copy of the working tree, contract attribute + harness module appended to src/generated/ids.rs; canary harness must fail)" if kani_res else ""),
        trusted_base=trusted_base,
        clause_ids=sorted(set(clause_ids)),
        property_lemmas=sorted(set(lemma_ids)),
        functions_under_contract=functions_under_contract,
        assumed_items=trusted_items,
        rewrites_applied=_rule_summary(rules),
        backend="Verus 0.2026.09.13 (Z3 bundled)" + ("; Kani 0.68.0 / CBMC 6.11 (function contract + loop-free full-domain harnesses)" if kani_res and cfg.get("kani") == "ids" else "") + ("; Kani 0.68.0 / CBMC 6.11 for the bounded check of the lexer leaves" if bounded_kani else ""),
        kani=dict(cmd=kani_res.get("cmd"), harnesses=kani_res.get("harnesses"), statics=kani_res.get("statics")) if kani_res else None,
        solver_time_s=solver_time,
        slow_functions=fn_results[:20],
        canary=dict(functions_that_correctly_failed=len(set(canary_ok))),
        undecided=undecided,
        violations=[dict(obligation=v["obligation"], kind=v["kind"]) for v in violations],
        known_findings_suppressed=[dict(finding=k["finding_id"], obligation=f["obligation"]) for k, f in suppressed],
        explanation=cfg.get("explanation", ""),
    )
    if standin_report:
        coverage["bounded_standins"] = standin_report.get("standins", []) + ([bounded_kani] if bounded_kani else [])
        coverage["evaluations"] = standin_report.get("evaluations", 0)
        coverage["distinct_nontrivial"] = standin_report.get("distinct_nontrivial", 0)
        coverage["rule"] = standin_report.get("rule", "")
        coverage["samples"] = standin_report.get("samples", [])
        coverage["exhaustive"] = standin_report.get("exhaustive", False)
    else:
        coverage["samples"] = sorted(set(clause_ids))[:12]
    ev = dict(property_id=prop, tier=tier, seed=seed, level=level, coverage=coverage,
              assumptions=trusted_base, wall_s=round(wall, 2), violations=len(violations) + (len(standin_viol) if not violations else 0))
    json.dump(ev, open(evid_path, "w"), indent=1)
    print(f"check {prop} tier={tier}: obligations={obligations} discharged={discharged} violations={ev['violations']} undecided={len(undecided)} wall={wall:.1f}s -> exit {rc}")
    return rc


def match_known(failure, known_p):
    for k in known_p:
        for c in k.get("clause_ids", []):
            if failure.get("clause") == c:
                return k
    return None


def _slug(s):
    return re.sub(r"[^A-Za-z0-9_.-]+", "_", s)[:120]


def _rule_summary(rules):
    out = {}
    for r in rules:
        key = r["rule"]
        out.setdefault(key, dict(count=0, sites=[]))
        out[key]["count"] += 1
        if len(out[key]["sites"]) < 12:
            out[key]["sites"].append(f"{r['site']} {r['note'][:100]}")
    return out


if __name__ == "__main__":
    sys.exit(main())
