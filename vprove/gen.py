"""Unit generator: template (.vt) -> Verus file + origin map.

A template is Verus source text containing directive blocks

    /*@@ include <path relative to /verif> @@*/
    /*@@ item <repo file> :: <selector>
    <directives>
    @@*/

Directives inside an item block (one per line; a text argument may be given as
`<<<` ... `>>>` spanning several lines):

    props C02 C04                      default attribution of implicit obligations
    ret NAME                           name the return value (`-> T` becomes `-> (NAME: T)`)
    attrs TEXT                         attributes to put in front of the item (after R1 stripping)
    trusted                            emit with #[verifier::external_body] (assumed contract)
    hoist                              remove nested fn items from the body (they are extracted separately)
    requires  [id tags..] EXPR
    ensures   [id tags..] EXPR
    decreases EXPR
    loop N invariant [id tags..] EXPR
    loop N ensures   [id tags..] EXPR
    loop N decreases EXPR
    loop N invariant_except_break [id tags..] EXPR
    ghost body-start TEXT | ghost before-loop N TEXT | ghost loop-start N TEXT | ghost loop-end N TEXT
    ghost loop-exit N TEXT             (None arm of a desugared `for`)
    ghost after "TOKENS" [nth K] TEXT | ghost before "TOKENS" [nth K] TEXT
    rewrite RULE "OLD" => "NEW" [xN|x*] token-wise replacement, must match exactly N (default 1) times; `x*`: every occurrence, at least one
    for-desugar N [via "EXPR with {}"] R5
    break-value N VAR                  R3 for loop N: `break V` -> `{ VAR = V; break; }` (+ initial decl)
    debug-assert K => EXPR             R2: K-th debug_assert! -> assert(EXPR)
    drop "TOKENS" [xN]                 remove a token sequence (e.g. a trait bound Verus cannot parse)
    arm-tail "EXPR"                    R16 for a statement arm: EXPR (e.g. `Ok(())`) becomes the tail of the lifted fn
    write-macros N                     R17: every `write!(W, FMT, a..)` / `writeln!(W, FMT, a..)` (exactly N of them) becomes
                                       `W.put<k>(FMT, <newline?>, a..)`: a method call on the writer shim that records the piece

Everything that cannot be applied exactly raises LostAnchor => undecided."""

import hashlib
import os
import re
from dataclasses import dataclass, field

from .extract import SourceFile, LostAnchor, scan_items
from .rusttok import tokenize, match_close, TRIVIA, norm, Tok

VERIF = os.path.dirname(os.path.dirname(os.path.abspath(__file__)))


class TemplateError(Exception):
    pass


@dataclass
class Clause:
    kind: str            # requires / ensures / invariant / loop-ensures / assert
    cid: str
    tags: list
    expr: str
    loop: int = 0


@dataclass
class ItemSpec:
    file: str
    selector: str
    tmpl_line: int
    props: list = field(default_factory=list)
    ret: str = None
    attrs: str = None
    trusted: bool = False
    hoist: bool = False
    armfn: str = None
    requires: list = field(default_factory=list)
    ensures: list = field(default_factory=list)
    decreases: str = None
    loops: dict = field(default_factory=dict)     # n -> dict(invariant=[], ensures=[], decreases=None, ieb=[])
    ghosts: list = field(default_factory=list)    # (where, arg, nth, text)
    rewrites: list = field(default_factory=list)  # (rule, old, new, count)
    fordesugar: dict = field(default_factory=dict)
    breakvalue: dict = field(default_factory=dict)
    debug_asserts: dict = field(default_factory=dict)
    drops: list = field(default_factory=list)
    write_macros: int = -1
    arm_tail: str = None
    recommends: list = field(default_factory=list)

    @property
    def item_id(self):
        return f"{self.file} :: {self.selector}"


_CL = re.compile(r"^\[([^\]]+)\]\s*(.*)$", re.S)


def _parse_clause(kind, text, loop=0):
    m = _CL.match(text.strip())
    if not m:
        raise TemplateError(f"clause without [id]: {kind} {text[:60]}")
    parts = m.group(1).split()
    return Clause(kind, parts[0], parts[1:], m.group(2).strip(), loop)


def _split_directives(body_lines, tmpl_path, first_line):
    """Yield (lineno, directive_text) where <<< >>> blocks are folded in."""
    out = []
    i = 0
    while i < len(body_lines):
        line = body_lines[i]
        ln = first_line + i
        if not line.strip() or line.strip().startswith("#"):
            i += 1
            continue
        if "<<<" in line:
            head, _, rest = line.partition("<<<")
            buf = [rest] if rest.strip() else []
            i += 1
            while i < len(body_lines) and ">>>" not in body_lines[i]:
                buf.append(body_lines[i])
                i += 1
            if i >= len(body_lines):
                raise TemplateError(f"{tmpl_path}:{ln}: unterminated <<<")
            tail = body_lines[i].partition(">>>")[0]
            if tail.strip():
                buf.append(tail)
            out.append((ln, head.rstrip() + " " + "\n".join(buf)))
            i += 1
            continue
        # continuation lines: start with 4+ spaces of extra indentation relative to directive
        text = line
        i += 1
        while i < len(body_lines) and body_lines[i].startswith("      ") and body_lines[i].strip():
            text += "\n" + body_lines[i]
            i += 1
        out.append((ln, text))
    return out


_STR = r'"((?:[^"\\]|\\.)*)"'


def _unq(s):
    return s.replace('\\"', '"').replace("\\\\", "\\")


def parse_item_block(header, body_lines, tmpl_path, first_line):
    file, _, selector = header.partition(" :: ")
    spec = ItemSpec(file.strip(), selector.strip(), first_line)
    for ln, d in _split_directives(body_lines, tmpl_path, first_line + 1):
        d = d.strip()
        word, _, rest = d.partition(" ")
        rest = rest.strip()
        try:
            if word == "props":
                spec.props = rest.split()
            elif word == "ret":
                spec.ret = rest
            elif word == "attrs":
                spec.attrs = rest
            elif word == "trusted":
                spec.trusted = True
            elif word == "armfn":
                spec.armfn = rest
            elif word == "hoist":
                spec.hoist = True
            elif word == "requires":
                spec.requires.append(_parse_clause("requires", rest))
            elif word == "ensures":
                spec.ensures.append(_parse_clause("ensures", rest))
            elif word == "recommends":
                spec.recommends.append(rest)
            elif word == "decreases":
                spec.decreases = rest
            elif word == "loop":
                n, _, r2 = rest.partition(" ")
                n = int(n)
                kind, _, r3 = r2.strip().partition(" ")
                L = spec.loops.setdefault(n, dict(invariant=[], ensures=[], decreases=None, ieb=[]))
                if kind == "invariant":
                    L["invariant"].append(_parse_clause("invariant", r3, n))
                elif kind == "invariant_except_break":
                    L["ieb"].append(_parse_clause("invariant", r3, n))
                elif kind == "ensures":
                    L["ensures"].append(_parse_clause("loop-ensures", r3, n))
                elif kind == "decreases":
                    L["decreases"] = r3.strip()
                else:
                    raise TemplateError(f"unknown loop clause {kind}")
            elif word == "ghost":
                where, _, r2 = rest.partition(" ")
                r2 = r2.strip()
                if where in ("body-start",):
                    spec.ghosts.append((where, None, 1, r2))
                elif where in ("before-loop", "loop-start", "loop-end", "loop-exit", "after-loop"):
                    n, _, r3 = r2.partition(" ")
                    spec.ghosts.append((where, int(n), 1, r3.strip()))
                elif where in ("after", "before"):
                    m = re.match(_STR + r"\s*(?:nth\s+([\d,]+))?\s*(.*)$", r2, re.S)
                    if not m:
                        raise TemplateError("bad ghost anchor")
                    for nn in (m.group(2) or "1").split(","):
                        spec.ghosts.append((where, _unq(m.group(1)), int(nn), m.group(3).strip()))
                else:
                    raise TemplateError(f"unknown ghost position {where}")
            elif word == "rewrite":
                m = re.match(r"(\S+)\s+" + _STR + r"\s*=>\s*" + _STR + r"\s*(?:x(\d+|\*))?\s*$", rest, re.S)
                if not m:
                    raise TemplateError("bad rewrite")
                # `x*`: every occurrence (at least one) -- for outlines of a pure expression, where each occurrence means the same
                spec.rewrites.append((m.group(1), _unq(m.group(2)), _unq(m.group(3)), -1 if m.group(4) == "*" else int(m.group(4) or 1)))
            elif word == "drop":
                m = re.match(_STR + r"\s*(?:x(\d+))?\s*$", rest, re.S)
                spec.drops.append((_unq(m.group(1)), int(m.group(2) or 1)))
            elif word == "arm-tail":
                spec.arm_tail = _unq(re.match(_STR + r"\s*$", rest, re.S).group(1))
            elif word == "write-macros":
                spec.write_macros = int(rest.strip())
            elif word == "for-desugar":
                m = re.match(r"(\d+)\s*(?:via\s+" + _STR + r")?\s*$", rest, re.S)
                spec.fordesugar[int(m.group(1))] = _unq(m.group(2)) if m.group(2) else None
            elif word == "break-value":
                m = re.match(r"(\d+)\s+(\S+)\s+" + _STR + r"\s*$", rest)
                spec.breakvalue[int(m.group(1))] = (m.group(2), _unq(m.group(3)))
            elif word == "debug-assert":
                m = re.match(r"(\d+)\s*=>\s*(.*)$", rest, re.S)
                k = int(m.group(1))
                spec.debug_asserts[k] = _parse_clause("assert", m.group(2))
            else:
                raise TemplateError(f"unknown directive `{word}`")
        except TemplateError as e:
            raise TemplateError(f"{tmpl_path}:{ln}: {e}")
        except Exception as e:
            raise TemplateError(f"{tmpl_path}:{ln}: cannot parse directive `{d[:80]}`: {e!r}")
    return spec


# ---------------------------------------------------------------------------------------------
# splicing


def _find_seq(toks, sig, pattern, lo_k=0, hi_k=None):
    """All positions p (index into sig) such that sig[p:p+len(pattern)] token texts == pattern."""
    hi_k = len(sig) if hi_k is None else hi_k
    res = []
    n = len(pattern)
    texts = [toks[i].text for i in sig]
    for p in range(lo_k, hi_k - n + 1):
        if texts[p:p + n] == pattern:
            res.append(p)
    return res


class Splicer:
    """Applies one ItemSpec to the extracted tokens of one item."""

    def __init__(self, sf: SourceFile, item, spec: ItemSpec, rules_log: list):
        self.sf = sf
        self.spec = spec
        self.toks = [Tok(t.kind, t.text, t.start, t.end) for t in sf.toks[item.start:item.end + 1]]
        self.body_open = item.body_open - item.start if item.body_open >= 0 else -1
        self.kw = item.kw
        self.kw_tok = item.kw_tok - item.start
        self.before = {}      # tok idx -> [(text, origin)]
        self.after = {}
        self.replace = {}     # start idx -> (end idx inclusive, text, origin)
        self.removed = set()
        self.rules = rules_log
        self.clauses = []
        self.item_id = spec.item_id

    # -- helpers
    def origin_code(self, tok):
        return ("code", self.sf.path, self.sf.line_of(tok.start), self.item_id)

    def log(self, rule, tok_idx, note):
        line = self.sf.line_of(self.toks[tok_idx].start)
        self.rules.append(dict(rule=rule, site=f"{self.sf.path}:{line}", item=self.item_id, note=note))

    def ins_before(self, idx, text, origin):
        self.before.setdefault(idx, []).append((text, origin))

    def ins_after(self, idx, text, origin):
        self.after.setdefault(idx, []).append((text, origin))

    def remove_range(self, a, b):
        for k in range(a, b + 1):
            self.removed.add(k)

    def live_sig(self, lo=0, hi=None):
        hi = len(self.toks) if hi is None else hi
        return [k for k in range(lo, hi) if self.toks[k].kind not in TRIVIA and k not in self.removed]

    # -- passes
    def strip_attrs(self):
        toks = self.toks
        k = 0
        n = 0
        while k < len(toks):
            t = toks[k]
            if t.kind == "doc":
                self.removed.add(k)
            elif t.kind == "punct" and t.text == "#":
                j = k + 1
                while j < len(toks) and toks[j].kind in TRIVIA:
                    j += 1
                if j < len(toks) and toks[j].text == "!":
                    j += 1
                    while j < len(toks) and toks[j].kind in TRIVIA:
                        j += 1
                if j < len(toks) and toks[j].kind == "punct" and toks[j].text == "[":
                    close = match_close(toks, j)
                    self.remove_range(k, close)
                    n += 1
                    k = close + 1
                    continue
            k += 1
        if n:
            self.log("R1", 0, f"{n} attribute(s) and doc comments stripped")
        # visibility: pub(crate)/pub(super) -> pub (single-file, single-module unit)
        sig = self.live_sig()
        nv = 0
        for pos, k in enumerate(sig[:-1]):
            if toks[k].kind == "ident" and toks[k].text == "pub" and toks[sig[pos + 1]].text == "(":
                close = match_close(toks, sig[pos + 1])
                inner = [toks[q].text for q in range(sig[pos + 1] + 1, close) if toks[q].kind not in TRIVIA]
                if inner in (["crate"], ["super"]):
                    self.remove_range(sig[pos + 1], close)
                    nv += 1
        if nv:
            self.log("R1v", 0, f"{nv} restricted visibilities widened to `pub`")

    def hoist_nested(self):
        if self.body_open < 0:
            return
        close = match_close(self.toks, self.body_open)
        for it in scan_items(self.toks, self.body_open + 1, close):
            if it.kw == "fn":
                self.remove_range(it.start, it.end)
                self.log("R8", it.kw_tok, f"nested fn `{it.name}` hoisted (extracted separately)")

    def body_range(self):
        if self.body_open < 0:
            raise LostAnchor(f"{self.item_id}: item has no body")
        return self.body_open, match_close(self.toks, self.body_open)

    def loops(self):
        """[(kw_idx, body_open_idx, body_close_idx, kw)] in source order, nested fn items that were hoisted excluded."""
        bo, bc = self.body_range()
        res = []
        sig = self.live_sig(bo + 1, bc)
        for pos, k in enumerate(sig):
            t = self.toks[k]
            if t.kind == "ident" and t.text in ("while", "loop", "for"):
                if t.text == "for":
                    nxt = sig[pos + 1] if pos + 1 < len(sig) else None
                    if nxt is not None and self.toks[nxt].text == "<":
                        continue
                # find body `{`: first `{` at paren/bracket depth 0 after kw
                j = k + 1
                while j < bc:
                    tt = self.toks[j]
                    if tt.kind == "punct" and tt.text in "([":
                        j = match_close(self.toks, j) + 1
                        continue
                    if tt.kind == "punct" and tt.text == "{":
                        break
                    j += 1
                if j >= bc:
                    raise LostAnchor(f"{self.item_id}: loop body not found")
                res.append((k, j, match_close(self.toks, j), t.text))
        return res

    def apply(self):
        spec = self.spec
        self.strip_attrs()
        if spec.trusted and self.kw == "fn" and self.body_open >= 0:
            self._apply_trusted()
            return
        if spec.hoist:
            self.hoist_nested()
        # drops
        for text, count in spec.drops:
            pat = norm(text)
            sig = self.live_sig()
            hits = _find_seq(self.toks, sig, pat)
            if len(hits) != count:
                raise LostAnchor(f"{self.item_id}: drop `{text}` matched {len(hits)} times, expected {count}")
            for p in hits:
                self.remove_range(sig[p], sig[p + len(pat) - 1])
                self.log("R1d", sig[p], f"dropped `{text}`")
        # rewrites (token-wise)
        for rule, old, new, count in spec.rewrites:
            pat = norm(old)
            sig = self.live_sig()
            hits = _find_seq(self.toks, sig, pat)
            if (count >= 0 and len(hits) != count) or (count < 0 and not hits):
                raise LostAnchor(f"{self.item_id}: rewrite {rule} `{old}` matched {len(hits)} times, expected {count if count >= 0 else 'at least 1'}")
            for p in hits:
                a, b = sig[p], sig[p + len(pat) - 1]
                for k in range(a, b + 1):
                    if k in self.replace or k in self.removed and self.toks[k].kind not in TRIVIA:
                        raise LostAnchor(f"{self.item_id}: overlapping rewrites at `{old}`")
                self.replace[a] = (b, new, self.origin_code(self.toks[a]))
                self.log(rule, a, f"`{old}` => `{new}`")
        # write!/writeln! (R17): the macro call becomes a method call on the writer shim with the same format string and arguments
        if spec.write_macros >= 0:
            sig = self.live_sig()
            hits = [(p, False) for p in _find_seq(self.toks, sig, ["write", "!", "("])] + [(p, True) for p in _find_seq(self.toks, sig, ["writeln", "!", "("])]
            if len(hits) != spec.write_macros:
                raise LostAnchor(f"{self.item_id}: {len(hits)} write!/writeln! found, contracts describe {spec.write_macros}")
            for p, nl in hits:
                a, op = sig[p], sig[p + 2]
                close = match_close(self.toks, op)
                args, cur, k = [], [], op + 1
                while k < close:
                    t = self.toks[k]
                    if t.kind == "punct" and t.text in "([{":
                        e = match_close(self.toks, k)
                        cur.append(self.sf.text[t.start:self.toks[e].end])
                        k = e + 1
                        continue
                    if t.kind == "punct" and t.text == ",":
                        args.append("".join(cur).strip())
                        cur = []
                    elif t.kind in TRIVIA:
                        cur.append(" ")
                    else:
                        cur.append(t.text)
                    k += 1
                if "".join(cur).strip():
                    args.append("".join(cur).strip())
                if len(args) < 1 or (len(args) >= 2 and not args[1].startswith('"')):
                    raise LostAnchor(f"{self.item_id}: write! without a literal format string (R17 does not apply)")
                if len(args) == 1:      # writeln!(w)
                    args.append('""')
                new = f"{args[0]}.put{len(args) - 2}({args[1]}, {'true' if nl else 'false'}" + "".join(", " + x for x in args[2:]) + ")"
                for q in range(a, close + 1):
                    if q in self.replace or q in self.removed and self.toks[q].kind not in TRIVIA:
                        raise LostAnchor(f"{self.item_id}: write! overlaps another rewrite")
                self.replace[a] = (close, new, self.origin_code(self.toks[a]))
                self.log("R17", a, f"`{'writeln' if nl else 'write'}!` with {len(args) - 2} argument(s) => `{new}`")
        # debug_assert (R2)
        if spec.debug_asserts or True:
            sig = self.live_sig()
            hits = _find_seq(self.toks, sig, ["debug_assert", "!", "("])
            if len(hits) != len(spec.debug_asserts) and self.body_open >= 0 and not spec.trusted:
                raise LostAnchor(f"{self.item_id}: {len(hits)} debug_assert! found, contracts describe {len(spec.debug_asserts)}")
            for n, p in enumerate(hits, 1):
                if n not in spec.debug_asserts:
                    continue
                cl = spec.debug_asserts[n]
                a = sig[p]
                close = match_close(self.toks, sig[p + 2])
                # include trailing `;`
                j = close + 1
                while j < len(self.toks) and self.toks[j].kind in TRIVIA:
                    j += 1
                if j < len(self.toks) and self.toks[j].text == ";":
                    close = j
                self.replace[a] = (close, f"assert({cl.expr}); // [{cl.cid}]", ("clause", self.item_id, cl.cid, "assert", cl.tags))
                self.clauses.append(cl)
                self.log("R2", a, f"debug_assert! #{n} -> static obligation [{cl.cid}]")
        # loops
        loops = self.loops() if self.body_open >= 0 else []
        for n in list(spec.loops) + list(spec.fordesugar) + list(spec.breakvalue):
            if n < 1 or n > len(loops):
                raise LostAnchor(f"{self.item_id}: loop {n} not found (item has {len(loops)} loops)")
        for n, L in spec.loops.items():
            kw_idx, bo, bc, kw = loops[n - 1]
            lines = []
            if L["ieb"]:
                lines.append(("    invariant_except_break", None))
                for cl in L["ieb"]:
                    lines.append((f"        {cl.expr}, // [{cl.cid}]", cl))
            if L["invariant"]:
                lines.append(("    invariant", None))
                for cl in L["invariant"]:
                    lines.append((f"        {cl.expr}, // [{cl.cid}]", cl))
            if L["ensures"]:
                lines.append(("    ensures", None))
                for cl in L["ensures"]:
                    lines.append((f"        {cl.expr}, // [{cl.cid}]", cl))
            if L["decreases"]:
                lines.append((f"    decreases {L['decreases']}", None))
            for text, cl in lines:
                if cl is None:
                    origin = ("clausehdr", self.item_id, f"loop{n}")
                else:
                    origin = ("clause", self.item_id, cl.cid, cl.kind, cl.tags)
                    self.clauses.append(cl)
                self.ins_before(bo, text, origin)
        # for-desugar (R5)
        for n, via in spec.fordesugar.items():
            kw_idx, bo, bc, kw = loops[n - 1]
            if kw != "for":
                raise LostAnchor(f"{self.item_id}: loop {n} is `{kw}`, not `for`")
            # tokens between `for` and body: PAT in EXPR
            seg = [k for k in self.live_sig(kw_idx + 1, bo)]
            # find `in` at depth 0
            depth = 0
            in_idx = None
            for k in seg:
                t = self.toks[k]
                if t.kind == "punct" and t.text in "([{":
                    depth += 1
                elif t.kind == "punct" and t.text in ")]}":
                    depth -= 1
                elif depth == 0 and t.kind == "ident" and t.text == "in":
                    in_idx = k
                    break
            if in_idx is None:
                raise LostAnchor(f"{self.item_id}: for-loop {n} has no `in`")
            pat_text = "".join(self.toks[k].text for k in range(kw_idx + 1, in_idx) if k not in self.removed).strip()
            expr_text = "".join(self.toks[k].text for k in range(in_idx + 1, bo) if k not in self.removed).strip()
            it_expr = via.replace("{}", expr_text) if via else f"core::iter::IntoIterator::into_iter({expr_text})"
            itn = f"verif_it{n}"
            origin = self.origin_code(self.toks[kw_idx])
            # label support: a label `'x:` before `for` stays in front of the block -> move it to the loop
            self.replace[kw_idx] = (bo - 1, f"{{ let mut {itn} = {it_expr}; loop", origin)
            # inserts registered "before bo" (invariants) are emitted between `loop` and `{`
            self.ins_after(bo, f"match {itn}.next() {{ Some({pat_text}) => {{", origin)
            exit_ghost = "".join(g[3] + "\n" for g in spec.ghosts if g[0] == "loop-exit" and g[1] == n)
            self.ins_before(bc, f"}}, None => {{ {exit_ghost} break; }} }}", origin)
            self.ins_after(bc, "}", origin)
            self.log("R5", kw_idx, f"`for {pat_text} in {expr_text}` desugared to loop/match next()" + (f" via `{via}`" if via else ""))
        # break-value (R3)
        for n, var in spec.breakvalue.items():
            kw_idx, bo, bc, kw = loops[n - 1]
            if kw != "loop":
                raise LostAnchor(f"{self.item_id}: break-value on non-`loop` loop {n}")
            self._lower_break_value(n, var, kw_idx, bo, bc, loops)
        # ghosts
        for where, arg, nth, text in spec.ghosts:
            origin = ("ghost", self.item_id, f"{where} {arg if arg is not None else ''}".strip())
            if where == "body-start":
                bo, bc = self.body_range()
                self.ins_after(bo, text, origin)
            elif where == "before-loop":
                kw_idx = loops[arg - 1][0]
                # step back over a loop label `'outer:`
                sig = self.live_sig(0, kw_idx)
                if len(sig) >= 2 and self.toks[sig[-1]].text == ":" and self.toks[sig[-2]].kind == "lifetime":
                    kw_idx = sig[-2]
                # `let x = loop` / `x = loop` / `while`: insert before the statement start => caller must use `before "..."` for those
                self.ins_before(kw_idx, text, origin)
            elif where == "after-loop":
                bc = loops[arg - 1][2]
                if arg in spec.fordesugar:
                    self.after.setdefault(bc, []).append((text, origin))
                else:
                    self.ins_after(bc, text, origin)
            elif where == "loop-start":
                bo = loops[arg - 1][1]
                if arg in spec.fordesugar:
                    self.after.setdefault(bo, []).append((text, origin))
                else:
                    self.ins_after(bo, text, origin)
            elif where == "loop-end":
                bc = loops[arg - 1][2]
                if arg in spec.fordesugar:
                    self.before.setdefault(bc, []).insert(0, (text, origin))
                else:
                    self.ins_before(bc, text, origin)
            elif where == "loop-exit":
                if arg not in spec.fordesugar:
                    raise TemplateError(f"{self.item_id}: loop-exit ghost needs for-desugar {arg}")
            elif where in ("after", "before"):
                pat = norm(arg)
                sig = self.live_sig()
                hits = _find_seq(self.toks, sig, pat)
                if len(hits) < nth:
                    raise LostAnchor(f"{self.item_id}: ghost anchor `{arg}` (nth {nth}) not found ({len(hits)} matches)")
                p = hits[nth - 1]
                if where == "after":
                    self.ins_after(sig[p + len(pat) - 1], text, origin)
                else:
                    self.ins_before(sig[p], text, origin)
        # signature: ret + requires/ensures
        if self.kw == "fn":
            self._splice_signature()
        elif self.kw == "arm":
            # R16 (arm lifting): the block of a match arm becomes the body of a named fn whose parameters are the block's free variables
            if not spec.armfn:
                raise TemplateError(f"{self.item_id}: `arm` item needs an `armfn <signature>` directive")
            self.ins_before(0, spec.armfn, ("tmpl", "armfn", 0))
            self.log("R16", 0, f"match arm `{spec.selector.split(' :: ')[-1]}` lifted to `{spec.armfn}`")
            if spec.arm_tail:
                # a statement arm (type `()`, inside a loop of a fn returning Result): the lifted fn returns Result so that `?` keeps its
                # meaning (leave with the error); falling off the end of the block is the success value
                last = self.live_sig()[-1]
                if self.toks[last].text != "}":
                    raise LostAnchor(f"{self.item_id}: arm is not a block")
                self.ins_before(last, spec.arm_tail, ("tmpl", "arm-tail", 0))
            lines = []
            if spec.requires:
                lines.append(("    requires", None))
                for cl in spec.requires:
                    lines.append((f"        {cl.expr}, // [{cl.cid}]", cl))
            if spec.ensures:
                lines.append(("    ensures", None))
                for cl in spec.ensures:
                    lines.append((f"        {cl.expr}, // [{cl.cid}]", cl))
            for text, cl in lines:
                if cl is None:
                    origin = ("clausehdr", self.item_id, "sig")
                else:
                    origin = ("clause", self.item_id, cl.cid, cl.kind, cl.tags)
                    self.clauses.append(cl)
                self.ins_before(0, text, origin)

    def _apply_trusted(self):
        """Assumed contract: keep the signature (with its rewrites and contract), replace the body."""
        spec = self.spec
        bo = self.body_open
        bc = match_close(self.toks, bo)
        for text, count in spec.drops:
            pat = norm(text)
            sig = self.live_sig(0, bo)
            for p in _find_seq(self.toks, sig, pat):
                self.remove_range(sig[p], sig[p + len(pat) - 1])
        for rule, old, new, count in spec.rewrites:
            pat = norm(old)
            sig = self.live_sig(0, bo)
            for p in _find_seq(self.toks, sig, pat):
                a, b = sig[p], sig[p + len(pat) - 1]
                self.replace[a] = (b, new, self.origin_code(self.toks[a]))
        self.remove_range(bo + 1, bc - 1)
        self.ins_after(bo, "unimplemented!()", ("tmpl", "trusted-body", 0))
        self._splice_signature()

    def _lower_break_value(self, n, tyinit, kw_idx, bo, bc, loops):
        """R3: `let X = loop {.. break V ..};` / `X = loop {..};`  ->  `let mut bv: T = INIT; loop {.. { bv = V; break; } ..}; let X = bv;`
        (INIT is never observed: the loop is only left through a lowered break or a break of an outer label)"""
        ty, init = tyinit
        var = f"verif_bv{n}"
        inner = [(a, b, c) for (a, b, c, _) in loops if a > kw_idx and c < bc]
        sig = self.live_sig(bo + 1, bc)
        origin = self.origin_code(self.toks[kw_idx])
        pre = self.live_sig(0, kw_idx)
        # statement head: `let X =` or `X =`
        if len(pre) >= 3 and self.toks[pre[-1]].text == "=" and self.toks[pre[-2]].kind == "ident" and self.toks[pre[-3]].text == "let":
            target = self.toks[pre[-2]].text
            self.replace[pre[-3]] = (pre[-1], f"let mut {var}: {ty} = {init};", origin)
            self.ins_after(bc, f"; let {target} = {var}", ("inline",) + origin[1:])
        elif len(pre) >= 2 and self.toks[pre[-1]].text == "=" and self.toks[pre[-2]].kind == "ident":
            target = self.toks[pre[-2]].text
            self.replace[pre[-2]] = (pre[-1], f"let mut {var}: {ty} = {init};", origin)
            self.ins_after(bc, f"; {target} = {var}", ("inline",) + origin[1:])
        else:
            raise LostAnchor(f"{self.item_id}: loop {n} is not of the form `let X = loop` / `X = loop`")
        cnt = 0
        for pos, k in enumerate(sig):
            t = self.toks[k]
            if not (t.kind == "ident" and t.text == "break"):
                continue
            in_inner = any(a < k < c for (a, b, c) in inner)
            nxt = sig[pos + 1]
            nt = self.toks[nxt]
            if nt.kind == "lifetime":
                continue   # labelled break of an outer loop: carries no value for this loop
            if in_inner:
                continue
            if nt.text in (";", "}", ","):
                continue
            j = nxt
            while j < bc:
                tt = self.toks[j]
                if tt.kind == "punct" and tt.text in "([{":
                    j = match_close(self.toks, j) + 1
                    continue
                if tt.kind == "punct" and tt.text in (";", ",", "}"):
                    break
                j += 1
            vend = j - 1
            while self.toks[vend].kind in TRIVIA:
                vend -= 1
            vtext = "".join(self.toks[q].text for q in range(nxt, vend + 1))
            self.replace[k] = (vend, f"{{ {var} = {vtext}; break; }}", origin)
            cnt += 1
        if cnt == 0:
            raise LostAnchor(f"{self.item_id}: loop {n} has no `break <value>`")
        self.log("R3", kw_idx, f"{cnt} `break <value>` lowered to assignment of `{var}` + break")

    def _splice_signature(self):
        spec = self.spec
        toks = self.toks
        # parameter list: first `(` after fn name at depth 0 (skip generics)
        k = self.kw_tok + 1
        while toks[k].kind in TRIVIA:
            k += 1
        name_idx = k
        k += 1
        # skip generics <...>
        while toks[k].kind in TRIVIA:
            k += 1
        if toks[k].text == "<":
            depth = 0
            while True:
                if toks[k].kind == "punct" and toks[k].text == "<":
                    depth += 1
                elif toks[k].kind == "punct" and toks[k].text == ">" and toks[k - 1].text != "-":
                    depth -= 1
                    if depth == 0:
                        break
                k += 1
            k += 1
            while toks[k].kind in TRIVIA:
                k += 1
        if toks[k].text != "(":
            raise LostAnchor(f"{self.item_id}: cannot find parameter list")
        pclose = match_close(toks, k)
        end = self.body_open if self.body_open >= 0 else len(toks) - 1
        if spec.ret:
            # find `->` after pclose
            sig = [q for q in range(pclose + 1, end) if toks[q].kind not in TRIVIA and q not in self.removed]
            arrow = None
            for pos in range(len(sig) - 1):
                if toks[sig[pos]].text == "-" and toks[sig[pos + 1]].text == ">" and sig[pos + 1] == sig[pos] + 1:
                    arrow = pos
                    break
            if arrow is None:
                raise LostAnchor(f"{self.item_id}: `ret {spec.ret}` but the function has no return type")
            tstart = sig[arrow + 2]
            # type ends before `where` at depth 0 or at end
            tend = sig[-1]
            depth = 0
            for pos in range(arrow + 2, len(sig)):
                t = toks[sig[pos]]
                if t.kind == "ident" and t.text == "where" and depth == 0:
                    tend = sig[pos - 1]
                    break
                if t.kind == "punct" and t.text in "([":
                    depth += 1
                elif t.kind == "punct" and t.text in ")]":
                    depth -= 1
            o = self.origin_code(toks[tstart])
            self.before.setdefault(tstart, []).append((f"({spec.ret}: ", ("inline",) + o[1:]))
            self.after.setdefault(tend, []).append((")", ("inline",) + o[1:]))
        lines = []
        if spec.requires:
            lines.append(("    requires", None))
            for cl in spec.requires:
                lines.append((f"        {cl.expr}, // [{cl.cid}]", cl))
        if spec.recommends:
            lines.append(("    recommends " + ", ".join(spec.recommends), None))
        if spec.ensures:
            lines.append(("    ensures", None))
            for cl in spec.ensures:
                lines.append((f"        {cl.expr}, // [{cl.cid}]", cl))
        if spec.decreases:
            lines.append((f"    decreases {spec.decreases}", None))
        for text, cl in lines:
            if cl is None:
                origin = ("clausehdr", self.item_id, "sig")
            else:
                origin = ("clause", self.item_id, cl.cid, cl.kind, cl.tags)
                self.clauses.append(cl)
            self.ins_before(end, text, origin)

    def render(self):
        """Return list of (text, origin) chunks."""
        out = []
        toks = self.toks
        spec = self.spec
        pre = []
        if spec.attrs:
            pre.append(spec.attrs)
        if spec.trusted and self.kw == "fn":
            pre.append("#[verifier::external_body]")
        for p in pre:
            out.append((p + "\n", ("tmpl", "attrs", 0)))
        k = 0
        n = len(toks)

        def emit_inserts(lst):
            for text, origin in lst:
                if origin[0] == "inline":
                    out.append((text, ("code",) + origin[1:]))
                else:
                    out.append(("\n", origin))
                    for line in text.split("\n"):
                        out.append((line + "\n", origin))
        while k < n:
            if k in self.before:
                emit_inserts(self.before[k])
            if k in self.replace:
                b, text, origin = self.replace[k]
                out.append((text, origin))
                # inserts attached to tokens inside the replaced range (e.g. loop invariants before `{`)
                for q in range(k + 1, b + 1):
                    if q in self.before:
                        emit_inserts(self.before[q])
                    if q in self.after:
                        emit_inserts(self.after[q])
                if k in self.after:
                    emit_inserts(self.after[k])
                k = b + 1
                continue
            if k not in self.removed:
                out.append((toks[k].text, self.origin_code(toks[k])))
            if k in self.after:
                emit_inserts(self.after[k])
            k += 1
        out.append(("\n", ("tmpl", "sep", 0)))
        return out


# ---------------------------------------------------------------------------------------------
# template driver


@dataclass
class Generated:
    text: str
    line_origins: list          # index = line-1 -> list of origins
    items: list                 # dict(file, selector, lines, sha256, props, trusted)
    clauses: list               # dict(item, cid, kind, tags)
    rules: list
    template: str
    includes: list = None


_BLOCK = re.compile(r"/\*@@(.*?)@@\*/", re.S)


def generate(template_path, repo, canary=False, only_items=None):
    rules = []
    opaque_names = []
    includes = []
    items_meta = []
    clauses_meta = []
    chunks = []
    files = {}

    def get_sf(rel):
        if rel not in files:
            p = os.path.join(repo, rel)
            if not os.path.exists(p):
                raise LostAnchor(f"{rel}: file not found")
            files[rel] = SourceFile(rel, open(p, encoding="utf-8").read())
        return files[rel]

    def process(path, depth=0, force_trusted=False):
        text = open(path, encoding="utf-8").read()
        for nm in opaque_names:
            # hide a definition the proofs of this unit do not need (keeps the solver's query small); lemmas that need it `reveal` it
            text = re.sub(r"(\n[ \t]*)(pub (?:closed|open) spec fn " + re.escape(nm) + r"\()", r"\1#[verifier::opaque]\1\2", text)
        rel = os.path.relpath(path, VERIF)
        pos = 0
        for m in _BLOCK.finditer(text):
            pre = text[pos:m.start()]
            base_line = text.count("\n", 0, pos) + 1
            for i, line in enumerate(pre.split("\n")):
                chunks.append((line + "\n", ("tmpl", rel, base_line + i)))
            # the split adds one extra newline per block; harmless
            pos = m.end()
            body = m.group(1)
            first_line = text.count("\n", 0, m.start()) + 1
            lines = body.split("\n")
            head = lines[0].strip()
            if head.startswith("include "):
                inc = head[len("include "):].strip()
                ft = force_trusted
                opq = []
                while True:
                    mo = re.search(r"\s+opaque:(\S+)$", inc)
                    if not mo:
                        break
                    opq.append(mo.group(1))
                    inc = inc[:mo.start()]
                if inc.endswith(" trusted"):
                    inc = inc[:-len(" trusted")].strip()
                    ft = True
                opaque_names.extend(opq)
                includes.append(inc + (" (assumed here, proved in its own unit)" if ft and inc.startswith("contracts/") else ""))
                process(os.path.join(VERIF, inc), depth + 1, ft)
                continue
            if head == "tables":
                import tomllib
                from . import tables as T
                std = tomllib.load(open(os.path.join(VERIF, "contracts", "standards.toml"), "rb"))
                tch, tit, tcl, trl = T.render_tables(repo, std, canary=canary)
                chunks.extend(tch)
                items_meta.extend(tit)
                clauses_meta.extend(tcl)
                rules.extend(trl)
                continue
            if head.startswith("item "):
                spec = parse_item_block(head[len("item "):], lines[1:], rel, first_line)
                if force_trusted and " :: fn " in (" :: " + spec.selector):
                    spec.trusted = True
                sf = get_sf(spec.file)
                item = sf.find(spec.selector)
                sp = Splicer(sf, item, spec, rules)
                sp.apply()
                rendered = sp.render()
                if canary and sp.body_open >= 0 and not spec.trusted and sp.kw in ("fn", "arm"):
                    rendered = _canary(rendered, sp)
                chunks.extend(rendered)
                raw = sf.item_text(item)
                items_meta.append(dict(
                    file=spec.file, selector=spec.selector,
                    lines=[sf.line_of(sf.toks[item.start].start), sf.line_of(sf.toks[item.end].start)],
                    sha256=hashlib.sha256(raw.encode()).hexdigest(), props=spec.props, trusted=spec.trusted,
                    kind="fn" if item.kw == "arm" else item.kw))
                for cl in sp.clauses:
                    clauses_meta.append(dict(item=spec.item_id, cid=cl.cid, kind=cl.kind, tags=cl.tags or spec.props, trusted=spec.trusted))
                continue
            raise TemplateError(f"{rel}:{first_line}: unknown block `{head[:40]}`")
        base_line = text.count("\n", 0, pos) + 1
        for i, line in enumerate(text[pos:].split("\n")):
            chunks.append((line + "\n", ("tmpl", rel, base_line + i)))

    process(template_path)
    # assemble lines + origins
    full = "".join(c[0] for c in chunks)
    line_origins = [[] for _ in range(full.count("\n") + 2)]
    ln = 0
    for text, origin in chunks:
        parts = text.split("\n")
        for i, part in enumerate(parts):
            if part.strip():
                if origin not in line_origins[ln]:
                    line_origins[ln].append(origin)
            if i < len(parts) - 1:
                ln += 1
    return Generated(full, line_origins, items_meta, clauses_meta, rules, template_path, includes)


def _canary(rendered, sp):
    """Vacuity canary: `assert(false)` right after the body's opening brace; the function must then FAIL."""
    sp.after.setdefault(sp.body_open, []).insert(0, ("assert(false); // canary", ("canary", sp.item_id)))
    return sp.render()
