#!/usr/bin/env python3
"""developer helper: run one stand-in and print its report"""
import sys, json, time
sys.path.insert(0,'/verif')
from vprove import standin
prop=sys.argv[1]; tier=sys.argv[2] if len(sys.argv)>2 else 'quick'
t=time.time()
r=standin.run(prop,tier,0,'/repo',[])
print(json.dumps({k:v for k,v in r.items() if k not in('violations','samples')},indent=1)[:3000])
for v in r.get('violations',[])[:25]: print('VIOL',json.dumps(v,ensure_ascii=False)[:400])
print('n viol',len(r.get('violations',[])),'time %.1f'%(time.time()-t))
