// ---------------------------------------------------------------------------------------------
// SPEC (C07): the decimal literal grammar and its value, written from the property text, independent of the code's state machine.
//   literal := sign? D* ('.' D*)? (('e' | 'E') sign? D*)?          empty digit strings count as 0
//   value   := +-( int + frac / 10^|frac| ) * 10^(+-exp)
pub open spec fn is_digit(b: u8) -> bool { 48 <= b <= 57 }
pub open spec fn dval(b: u8) -> int { b as int - 48 }
pub open spec fn is_sign(b: u8) -> bool { b == 43 || b == 45 }
pub open spec fn is_e(b: u8) -> bool { b == 101 || b == 69 }

/// value of a digit string, most significant digit first
pub open spec fn digits_val(s: Seq<u8>) -> int
    decreases s.len()
{
    if s.len() == 0 { 0int } else { digits_val(s.drop_last()) * 10 + dval(s.last()) }
}

/// length of the maximal run of digits starting at i
pub open spec fn digit_run(s: Seq<u8>, i: int) -> int
    decreases s.len() - i
{
    if 0 <= i < s.len() && is_digit(s[i]) { 1 + digit_run(s, i + 1) } else { 0int }
}

pub struct LitParts { pub neg: bool, pub int_: Seq<u8>, pub frac: Seq<u8>, pub eneg: bool, pub exp: Seq<u8> }

/// deterministic split of a byte string along the grammar; None when the string is not a literal
pub open spec fn lit_split(s: Seq<u8>) -> Option<LitParts> {
    let i0 = if s.len() > 0 && is_sign(s[0]) { 1int } else { 0int };
    let neg = s.len() > 0 && s[0] == 45;
    let i1 = i0 + digit_run(s, i0);
    let has_dot = i1 < s.len() && s[i1] == 46;
    let f0 = if has_dot { i1 + 1 } else { i1 };
    let i2 = if has_dot { f0 + digit_run(s, f0) } else { i1 };
    if i2 == s.len() {
        Some(LitParts { neg, int_: s.subrange(i0, i1), frac: s.subrange(f0, i2), eneg: false, exp: Seq::<u8>::empty() })
    } else if i2 < s.len() && is_e(s[i2]) {
        let j0 = i2 + 1;
        let j1 = if j0 < s.len() && is_sign(s[j0]) { j0 + 1 } else { j0 };
        let eneg = j0 < s.len() && s[j0] == 45;
        if j1 + digit_run(s, j1) == s.len() {
            Some(LitParts { neg, int_: s.subrange(i0, i1), frac: s.subrange(f0, i2), eneg, exp: s.subrange(j1, s.len() as int) })
        } else { None }
    } else { None }
}

/// unsigned magnitude of a literal
pub open spec fn lit_mag(p: LitParts) -> real {
    (digits_val(p.int_) as real + digits_val(p.frac) as real / qpow(10real, p.frac.len() as int))
        * qpow(10real, if p.eneg { -digits_val(p.exp) } else { digits_val(p.exp) })
}

pub open spec fn lit_value(p: LitParts) -> real { if p.neg { -lit_mag(p) } else { lit_mag(p) } }

/// the number a byte string spells, None when it is not a literal of the language
pub open spec fn parse_lit(s: Seq<u8>) -> Option<real> {
    match lit_split(s) { Some(p) => Some(lit_value(p)), None => None }
}

// ---- lemmas
pub proof fn lemma_digit_run(s: Seq<u8>, a: int, b: int)
    requires 0 <= a <= b <= s.len(), forall|k: int| a <= k < b ==> is_digit(#[trigger] s[k]), b == s.len() || !is_digit(s[b])
    ensures digit_run(s, a) == b - a
    decreases b - a
{
    if a < b { lemma_digit_run(s, a + 1, b); }
}

pub proof fn lemma_digits_nonneg(s: Seq<u8>)
    requires forall|k: int| 0 <= k < s.len() ==> is_digit(#[trigger] s[k])
    ensures digits_val(s) >= 0
    decreases s.len()
{
    if s.len() > 0 {
        assert forall|k: int| 0 <= k < s.drop_last().len() implies is_digit(#[trigger] s.drop_last()[k]) by { assert(s.drop_last()[k] == s[k]); }
        lemma_digits_nonneg(s.drop_last());
        assert(is_digit(s[s.len() - 1]));
    }
}

/// digits_val(a ++ b) = digits_val(a) * 10^|b| + digits_val(b)
pub proof fn lemma_digits_concat(a: Seq<u8>, b: Seq<u8>)
    ensures digits_val(a + b) == digits_val(a) * ipow10(b.len()) + digits_val(b)
    decreases b.len()
{
    if b.len() == 0 {
        assert(a + b =~= a);
    } else {
        assert((a + b).drop_last() =~= a + b.drop_last());
        assert((a + b).last() == b.last());
        lemma_digits_concat(a, b.drop_last());
        let x = digits_val(a); let p = ipow10(b.drop_last().len());
        assert(ipow10(b.len()) == 10 * p);
        assert((x * p + digits_val(b.drop_last())) * 10 + dval(b.last()) == x * (10 * p) + (digits_val(b.drop_last()) * 10 + dval(b.last()))) by(nonlinear_arith);
    }
}

/// a prefix of a digit string is not larger than the whole string
pub proof fn lemma_digits_prefix_le(s: Seq<u8>, n: int)
    requires 0 <= n <= s.len(), forall|k: int| 0 <= k < s.len() ==> is_digit(#[trigger] s[k])
    ensures digits_val(s.subrange(0, n)) <= digits_val(s)
    decreases s.len() - n
{
    if n == s.len() {
        assert(s.subrange(0, n) =~= s);
    } else {
        let t = s.drop_last();
        assert forall|k: int| 0 <= k < t.len() implies is_digit(#[trigger] t[k]) by { assert(t[k] == s[k]); }
        lemma_digits_prefix_le(t, n);
        assert(t.subrange(0, n) =~= s.subrange(0, n));
        lemma_digits_nonneg(t);
        assert(is_digit(s[s.len() - 1]));
    }
}

