// SPEC (C08): the digits long division produces, and what a printed digit string is worth.
/// 10^n
pub open spec fn p10(n: nat) -> int decreases n { if n == 0 { 1 } else { 10 * p10((n - 1) as nat) } }
pub proof fn lemma_p10_pos(n: nat) ensures p10(n) > 0 decreases n { if n > 0 { lemma_p10_pos((n - 1) as nat); } }
/// the first (at most n) digits of rem/den after the point, stopping early when the division comes out even
#[verifier::opaque]
pub open spec fn frac_digits(rem: int, den: int, n: nat) -> Seq<u8>
    decreases n
{
    if n == 0 || rem == 0 || den <= 0 { Seq::<u8>::empty() } else {
        let d = (10 * rem) / den;
        seq![d as u8] + frac_digits(10 * rem - d * den, den, (n - 1) as nat)
    }
}
/// the remainder left after those digits
#[verifier::opaque]
pub open spec fn frac_rem(rem: int, den: int, n: nat) -> int
    decreases n
{
    if n == 0 || rem == 0 || den <= 0 { rem } else {
        let d = (10 * rem) / den;
        frac_rem(10 * rem - d * den, den, (n - 1) as nat)
    }
}
/// 0.d1 d2 .. dk as a number
pub open spec fn dec_value(ds: Seq<u8>) -> real
    decreases ds.len()
{
    if ds.len() == 0 { 0real } else { (ds[0] as int as real + dec_value(ds.skip(1))) / 10real }
}
/// |x|
pub open spec fn dabs(x: int) -> int { if x >= 0 { x } else { -x } }
/// the digit specification stops when the budget is used up or the division has come out even
pub proof fn lemma_frac_done(rem: int, den: int, n: nat)
    requires n == 0 || rem == 0
    ensures frac_digits(rem, den, n) =~= Seq::<u8>::empty(), frac_rem(rem, den, n) == rem
{
    reveal(frac_digits); reveal(frac_rem);
}
