// ---------------------------------------------------------------------------------------------
// SPEC: dimensions and scales of compound units (written from the property statements C02-C04, C09).
// A dimension is a total function Unit -> int over the base units (pointwise equality).
pub open spec fn is_base(u: Unit) -> bool { !(u is Derived) }

/// assumed-by-table (proved against every `powers` closure in unit TABLES): exponent of base unit `k` in one derived unit
pub uninterp spec fn derived_dim(d: Derived, k: Unit) -> int;
/// assumed-by-table: the conversion entry of a unit's vtable
pub uninterp spec fn derived_conv(d: Derived) -> Option<Conversion>;

/// exponent of base unit `k` in unit `u`
pub open spec fn udim(u: Unit, k: Unit) -> int {
    match u {
        Unit::Derived(d) => derived_dim(d, k),
        _ => if u == k { 1int } else { 0int },
    }
}

pub open spec fn unit_conv(u: Unit) -> Option<Conversion> {
    match u {
        Unit::Derived(d) => derived_conv(d),
        _ => None,
    }
}

/// table facts every derived unit obeys (proved per closure in unit TABLES): only base units, small coefficients
pub open spec fn dim_table_ok(u: Unit) -> bool {
    (forall|k: Unit| -8 <= #[trigger] udim(u, k) <= 8 && (udim(u, k) != 0 ==> is_base(k)))
    && (exists|k: Unit| #[trigger] udim(u, k) != 0)
}

/// exponent of base unit `k` in a compound (a key-ordered sequence of (unit, state)):  sum of power * udim
pub open spec fn dims(s: Seq<(Unit, State)>, k: Unit) -> int
    decreases s.len()
{
    if s.len() == 0 { 0int } else { dims(s.drop_last(), k) + s.last().1.power as int * udim(s.last().0, k) }
}

/// commensurable: the same power of every base dimension
pub open spec fn same_dims(a: Seq<(Unit, State)>, b: Seq<(Unit, State)>) -> bool {
    forall|k: Unit| dims(a, k) == dims(b, k)
}

/// an exec Powers map `m` represents the dimension function of `s` exactly
pub open spec fn pw_repr(m: Map<Unit, i32>, s: Seq<(Unit, State)>) -> bool {
    forall|k: Unit| pw_get(m, k) == dims(s, k)
}

/// assumed-by-table: to-kelvin / from-kelvin maps of a Methods conversion (proved for FAHRENHEIT's closures in TABLES)
pub uninterp spec fn methods_to(m: ConversionMethods, x: real) -> real;
pub uninterp spec fn methods_from(m: ConversionMethods, x: real) -> real;

// ---- scales
pub open spec fn frac(f: ConversionFraction) -> real { f.numer as real / f.denom as real }

/// interval factor of a unit (1 for offset scales such as degC; the Fahrenheit degree is handled by C09's lemmas)
pub open spec fn factor_of(u: Unit) -> real {
    match unit_conv(u) {
        Some(Conversion::Factor(f)) => frac(f),
        _ => 1real,
    }
}

pub open spec fn proportional_unit(u: Unit) -> bool {
    match unit_conv(u) {
        None => true,
        Some(Conversion::Factor(f)) => f.denom != 0 && f.numer != 0,
        _ => false,
    }
}

pub open spec fn ent_scale(e: (Unit, State)) -> real {
    qpow(10real, e.1.prefix as int * e.1.power as int) * qpow(factor_of(e.0), e.1.power as int)
}

pub open spec fn scale(s: Seq<(Unit, State)>) -> real
    decreases s.len()
{
    if s.len() == 0 { 1real } else { scale(s.drop_last()) * ent_scale(s.last()) }
}

pub open spec fn proportional(s: Seq<(Unit, State)>) -> bool {
    forall|i: int| 0 <= i < s.len() ==> proportional_unit(#[trigger] s[i].0)
}

/// C11's quantifier as a precondition: few entries, powers of <= 2 digits times <= 40 tokens, SI prefixes
pub open spec fn bounded(s: Seq<(Unit, State)>) -> bool {
    s.len() <= 64 && forall|i: int| 0 <= i < s.len() ==> -40000 <= (#[trigger] s[i]).1.power <= 40000 && -30 <= s[i].1.prefix <= 30
}

pub open spec fn no_zero_power(m: Map<Unit, State>) -> bool {
    forall|u: Unit| m.contains_key(u) ==> (#[trigger] m[u]).power != 0
}

/// table facts every conversion entry obeys (proved per static in unit TABLES)
pub open spec fn conv_ok(c: Conversion) -> bool {
    match c {
        Conversion::Factor(f) => f.denom != 0 && f.numer != 0,
        Conversion::Offset(f) => f.denom != 0,
        Conversion::Methods(m) => true,
    }
}

/// what applying one unit's conversion `pow` times means (pow < 0: the inverse direction); None = refused
pub open spec fn conv_apply(pow: int, x: real, c: Conversion) -> Option<real> {
    match c {
        Conversion::Methods(m) => if pow == 1 { Some(methods_to(m, x)) } else if pow == -1 { Some(methods_from(m, x)) } else { None },
        Conversion::Factor(f) => Some(x * qpow(frac(f), pow)),
        Conversion::Offset(f) => if pow == 1 || pow == -1 { Some(x + frac(f) * pow as real) } else { None },
    }
}

/// a scale with a zero point of its own (degC: Offset, degF: Methods)
pub open spec fn offset_unit(u: Unit) -> bool {
    match unit_conv(u) { Some(c) => !(c is Factor), None => false }
}

/// C09's guard, from the property text: an offset scale only ever takes part in a conversion when it stands alone with power one
pub open spec fn offset_ok(s: Seq<(Unit, State)>) -> bool {
    forall|i: int| 0 <= i < s.len() && offset_unit(#[trigger] s[i].0) ==> s.len() == 1 && s[i].1.power == 1
}

/// C19: the unit "has a numerator part" -- some unit with a positive power
pub open spec fn has_numer(m: Map<Unit, State>) -> bool { exists|k: Unit| m.contains_key(k) && (#[trigger] m[k]).power > 0 }
