// ---------------------------------------------------------------------------------------------
// SPEC: dimension vectors.  A Powers value is viewed as Map<Unit,i32>; `wf` = no zero entry
// (C02: "must not leave zero entries that distort the comparison").
pub open spec fn pw_get(m: Map<Unit, i32>, u: Unit) -> int {
    if m.contains_key(u) { m[u] as int } else { 0 }
}

pub open spec fn pw_wf(m: Map<Unit, i32>) -> bool {
    m.dom().finite() && forall|u: Unit| m.contains_key(u) ==> #[trigger] m[u] != 0
}

/// accumulate `p` on `u`, dropping the key when the sum is zero: the whole-view result of insert
pub open spec fn pw_add(m: Map<Unit, i32>, u: Unit, p: int) -> Map<Unit, i32> {
    let s = pw_get(m, u) + p;
    if s == 0 { m.remove(u) } else { m.insert(u, s as i32) }
}

pub open spec fn pw_bounded(m: Map<Unit, i32>, b: int) -> bool {
    forall|u: Unit| m.contains_key(u) ==> -b <= #[trigger] m[u] <= b
}
