// ---------------------------------------------------------------------------------------------
// SPEC: exact numbers.  BigRational / Rational are viewed as `real` (every operation used is closed
// on Q), BigInt as `int`.
pub open spec fn qpow(x: real, n: int) -> real
    decreases (if n >= 0 { n } else { -n })
{
    if n == 0 { 1real } else if n > 0 { x * qpow(x, n - 1) } else { qpow(x, n + 1) / x }
}

pub open spec fn is_int(x: real) -> bool { x.floor() as real == x }

/// truncation toward zero
pub open spec fn rtrunc(x: real) -> int {
    if x >= 0real { x.floor() } else { -((-x).floor()) }
}

/// least integer not below x
pub open spec fn rceil(x: real) -> int { -((-x).floor()) }

/// nearest integer, halves away from zero
pub open spec fn round_haz(x: real) -> int {
    if x >= 0real { (x + 0.5real).floor() } else { -((-x + 0.5real).floor()) }
}

pub proof fn lemma_qpow_pos(x: real, n: int)
    requires x > 0real
    ensures qpow(x, n) > 0real
    decreases (if n >= 0 { n } else { -n })
{
    if n == 0 {
    } else if n > 0 {
        lemma_qpow_pos(x, n - 1);
        let y = qpow(x, n - 1);
        assert(x * y > 0real) by(nonlinear_arith) requires x > 0real, y > 0real;
    } else {
        lemma_qpow_pos(x, n + 1);
        let y = qpow(x, n + 1);
        assert(y / x > 0real) by(nonlinear_arith) requires x > 0real, y > 0real;
    }
}

pub proof fn lemma_qpow_ne0(x: real, n: int)
    requires x != 0real
    ensures qpow(x, n) != 0real
    decreases (if n >= 0 { n } else { -n })
{
    if n == 0 {
    } else if n > 0 {
        lemma_qpow_ne0(x, n - 1);
        let y = qpow(x, n - 1);
        assert(x * y != 0real) by(nonlinear_arith) requires x != 0real, y != 0real;
    } else {
        lemma_qpow_ne0(x, n + 1);
        let y = qpow(x, n + 1);
        assert(y / x != 0real) by(nonlinear_arith) requires x != 0real, y != 0real;
    }
}

pub proof fn lemma_qpow_one(n: int)
    ensures qpow(1real, n) == 1real
    decreases (if n >= 0 { n } else { -n })
{
    if n == 0 {} else if n > 0 { lemma_qpow_one(n - 1); } else { lemma_qpow_one(n + 1); }
}

/// qpow(x, n+1) == x * qpow(x, n) for every n (x != 0)
pub proof fn lemma_qpow_succ(x: real, n: int)
    requires x != 0real
    ensures qpow(x, n + 1) == x * qpow(x, n)
{
    if n >= 0 {
    } else {
        // qpow(x, n) == qpow(x, n+1) / x
        let y = qpow(x, n + 1);
        assert(x * (y / x) == y) by(nonlinear_arith) requires x != 0real;
    }
}

pub proof fn lemma_qpow_pred(x: real, n: int)
    requires x != 0real
    ensures qpow(x, n - 1) == qpow(x, n) / x
{
    if n <= 0 {
    } else {
        let y = qpow(x, n - 1);
        assert((x * y) / x == y) by(nonlinear_arith) requires x != 0real;
    }
}

pub proof fn lemma_qpow_add(x: real, a: int, b: int)
    requires x != 0real
    ensures qpow(x, a + b) == qpow(x, a) * qpow(x, b)
    decreases (if b >= 0 { b } else { -b })
{
    if b == 0 {
        assert(qpow(x, a) * 1real == qpow(x, a));
    } else if b > 0 {
        lemma_qpow_add(x, a, b - 1);
        lemma_qpow_succ(x, a + b - 1);
        let p = qpow(x, a); let q = qpow(x, b - 1);
        assert(x * (p * q) == p * (x * q)) by(nonlinear_arith);
    } else {
        lemma_qpow_add(x, a, b + 1);
        lemma_qpow_pred(x, a + b + 1);
        let p = qpow(x, a); let q = qpow(x, b + 1);
        assert((p * q) / x == p * (q / x)) by(nonlinear_arith) requires x != 0real;
    }
}

pub proof fn lemma_qpow_neg(x: real, n: int)
    requires x != 0real
    ensures qpow(x, -n) == 1real / qpow(x, n), qpow(x, n) != 0real
{
    lemma_qpow_add(x, n, -n);
    lemma_qpow_ne0(x, n);
    let p = qpow(x, n); let q = qpow(x, -n);
    assert(q == 1real / p) by(nonlinear_arith) requires p * q == 1real, p != 0real;
}

/// (1/x)^n == x^(-n)
pub proof fn lemma_qpow_recip(x: real, n: int)
    requires x != 0real
    ensures qpow(1real / x, n) == qpow(x, -n)
    decreases (if n >= 0 { n } else { -n })
{
    let r = 1real / x;
    assert(r != 0real) by(nonlinear_arith) requires x != 0real, r == 1real / x;
    if n == 0 {
    } else if n > 0 {
        lemma_qpow_recip(x, n - 1);
        lemma_qpow_pred(x, -(n - 1));
        let q = qpow(x, -(n - 1));
        assert(-(n - 1) - 1 == -n);
        assert(r * q == q / x) by(nonlinear_arith) requires r == 1real / x, x != 0real;
    } else {
        lemma_qpow_recip(x, n + 1);
        lemma_qpow_succ(x, -(n + 1));
        assert(-(n + 1) + 1 == -n);
        let q = qpow(x, -(n + 1));
        assert(q / r == x * q) by(nonlinear_arith) requires r == 1real / x, x != 0real;
    }
}

pub proof fn lemma_qpow_mul_base(x: real, y: real, n: int)
    requires x != 0real, y != 0real
    ensures qpow(x * y, n) == qpow(x, n) * qpow(y, n)
    decreases (if n >= 0 { n } else { -n })
{
    assert(x * y != 0real) by(nonlinear_arith) requires x != 0real, y != 0real;
    if n == 0 {
    } else if n > 0 {
        lemma_qpow_mul_base(x, y, n - 1);
        let p = qpow(x, n - 1); let q = qpow(y, n - 1);
        assert((x * y) * (p * q) == (x * p) * (y * q)) by(nonlinear_arith);
    } else {
        lemma_qpow_mul_base(x, y, n + 1);
        let p = qpow(x, n + 1); let q = qpow(y, n + 1);
        assert((p * q) / (x * y) == (p / x) * (q / y)) by(nonlinear_arith) requires x != 0real, y != 0real;
    }
}

pub proof fn lemma_qpow_pow(x: real, a: int, b: int)
    requires x != 0real
    ensures qpow(qpow(x, a), b) == qpow(x, a * b)
    decreases (if b >= 0 { b } else { -b })
{
    lemma_qpow_ne0(x, a);
    let xa = qpow(x, a);
    if b == 0 {
        assert(a * b == 0) by(nonlinear_arith) requires b == 0;
    } else if b > 0 {
        lemma_qpow_pow(x, a, b - 1);
        assert(a * b == a + a * (b - 1)) by(nonlinear_arith);
        lemma_qpow_add(x, a, a * (b - 1));
    } else {
        lemma_qpow_pow(x, a, b + 1);
        assert(a * (b + 1) == a * b + a) by(nonlinear_arith);
        lemma_qpow_add(x, a * b, a);
        let p = qpow(x, a * b);
        assert((p * xa) / xa == p) by(nonlinear_arith) requires xa != 0real;
    }
}

pub proof fn lemma_floor_of_int(k: int)
    ensures (k as real).floor() == k
{
    let x = k as real;
    let j = x.floor();
    assert(j as real <= x < (j + 1) as real);
}

pub proof fn lemma_is_int_of_int(k: int)
    ensures is_int(k as real)
{
    let x = k as real;
    let j = x.floor();
    assert(j as real <= x < (j + 1) as real);
    assert(j == k);
    assert(j as real == x);
}

pub proof fn lemma_is_int_neg(x: real)
    requires is_int(x)
    ensures is_int(-x), (-x).floor() == -(x.floor()), rceil(x) == x.floor(), rtrunc(x) == x.floor(), round_haz(x) == x.floor()
{
    let k = x.floor();
    assert(x == k as real);
    assert(-x == (-k) as real);
    lemma_floor_of_int(-k);
    lemma_floor_of_int(k);
    assert(x + 0.5real >= k as real && x + 0.5real < (k + 1) as real);
    let a = (x + 0.5real).floor();
    assert(a as real <= x + 0.5real < (a + 1) as real);
    let b = (-x + 0.5real).floor();
    assert(b as real <= -x + 0.5real < (b + 1) as real);
}

/// 10^s for s >= 0 is a positive integer
pub open spec fn ipow10(s: nat) -> int
    decreases s
{
    if s == 0 { 1 } else { 10 * ipow10((s - 1) as nat) }
}

pub proof fn lemma_qpow10_int(s: int)
    requires s >= 0
    ensures qpow(10real, s) == ipow10(s as nat) as real, ipow10(s as nat) >= 1
    decreases s
{
    if s > 0 {
        lemma_qpow10_int(s - 1);
        let m = ipow10((s - 1) as nat);
        assert(10real * (m as real) == (10 * m) as real);
    }
}

pub proof fn lemma_round_haz_int(k: int)
    ensures round_haz(k as real) == k
{
    lemma_is_int_of_int(k);
    lemma_floor_of_int(k);
    lemma_is_int_neg(k as real);
}

pub proof fn lemma_zero_mul(a: int, b: int)
    requires a == 0
    ensures a * b == 0
{
    assert(a * b == 0) by(nonlinear_arith) requires a == 0;
}

/// integer power, n >= 0
pub open spec fn ipow(x: int, n: nat) -> int
    decreases n
{
    if n == 0 { 1int } else { x * ipow(x, (n - 1) as nat) }
}

pub proof fn lemma_ipow10(n: nat)
    ensures ipow(10, n) == ipow10(n), ipow10(n) >= 1, ipow10(n) as real == qpow(10real, n as int)
    decreases n
{
    if n > 0 { lemma_ipow10((n - 1) as nat); }
    lemma_qpow10_int(n as int);
}
