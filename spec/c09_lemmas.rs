// ---------------------------------------------------------------------------------------------
// C09: the defining affine formulas, composition and invertibility as lemmas over the postcondition of the real
// Compound::factor ([compound.factor.chain]: final(value) == chain_from(target, chain_to(source, old(value)))) and the
// conversion tables that unit TABLES proves for the real statics (CELSIUS: Offset(27315/100); FAHRENHEIT's to/from closures).

/// what TABLES proves about temperature::CELSIUS ([tables.CELSIUS.conv])
pub open spec fn celsius_table(c: Derived) -> bool {
    derived_conv(c) matches Some(Conversion::Offset(f)) && f.numer == 27315 && f.denom == 100
}
/// what TABLES proves about temperature::FAHRENHEIT ([tables.FAHRENHEIT.to], [tables.FAHRENHEIT.from])
pub open spec fn fahrenheit_table(d: Derived) -> bool {
    derived_conv(d) matches Some(Conversion::Methods(m))
    && (forall|x: real| #[trigger] methods_to(m, x) == (x - 32real) * 5real / 9real + 27315real / 100real)
    && (forall|x: real| #[trigger] methods_from(m, x) == (x - 27315real / 100real) * 9real / 5real + 32real)
}

/// a unit standing alone with power one and no prefix
pub open spec fn sole(u: Unit) -> Seq<(Unit, State)> { seq![(u, State { power: 1i32, prefix: 0i32 })] }

/// the relation the real `target.factor(source, value)` is proved to establish when it returns Ok(true)
pub open spec fn converts(target: Seq<(Unit, State)>, source: Seq<(Unit, State)>, x: real, y: real) -> bool {
    chain_to(source, x) matches Some(k) && chain_from(target, k) == Some(y)
}

/// the three scales of the property
pub open spec fn temp_scale(u: Unit) -> bool {
    u == Unit::Kelvin || (u matches Unit::Derived(d) && (celsius_table(d) || fahrenheit_table(d)))
}

/// absolute temperature (kelvin) of a reading on scale `u`, written from the property text: K = C + 273.15, C = (F - 32) * 5/9
pub open spec fn kelvin_of(u: Unit, x: real) -> real {
    match u {
        Unit::Derived(d) => if celsius_table(d) { x + 27315real / 100real } else { (x - 32real) * 5real / 9real + 27315real / 100real },
        _ => x,
    }
}

pub proof fn lemma_sole_to(u: Unit, x: real)
    requires temp_scale(u)
    ensures chain_to(sole(u), x) == Some(kelvin_of(u, x))
{
    let s = sole(u);
    assert(s.drop_last() =~= Seq::<(Unit, State)>::empty());
    assert(chain_to(s.drop_last(), x) == Some(x));
    assert(s.last() == (u, State { power: 1i32, prefix: 0i32 }));
    assert(qpow(10real, 0int * 1int) == 1real);
    assert(x * 1real == x);
    match u {
        Unit::Derived(d) => {
            if celsius_table(d) {
                let f = derived_conv(d)->Some_0->Offset_0;
                assert(frac(f) == 27315real / 100real);
                assert(frac(f) * (1int as real) == 27315real / 100real);
            }
        },
        _ => {},
    }
}

pub proof fn lemma_sole_from(u: Unit, k: real, y: real)
    requires temp_scale(u), chain_from(sole(u), k) == Some(y)
    ensures kelvin_of(u, y) == k
{
    let s = sole(u);
    assert(s.drop_last() =~= Seq::<(Unit, State)>::empty());
    assert(chain_from(s.drop_last(), k) == Some(k));
    assert(s.last() == (u, State { power: 1i32, prefix: 0i32 }));
    assert(qpow(10real, 0int * 1int) == 1real);
    match u {
        Unit::Derived(d) => {
            if celsius_table(d) {
                let f = derived_conv(d)->Some_0->Offset_0;
                assert(frac(f) == 27315real / 100real);
                assert(frac(f) * ((-1int) as real) == -(27315real / 100real));
                let z = k + frac(f) * ((-1int) as real);
                assert(z / 1real == z) by(nonlinear_arith);
            } else {
                let m = derived_conv(d)->Some_0->Methods_0;
                let z = methods_from(m, k);
                assert(z / 1real == z) by(nonlinear_arith);
                assert((((k - 27315real / 100real) * 9real / 5real + 32real) - 32real) * 5real / 9real + 27315real / 100real == k) by(nonlinear_arith);
            }
        },
        _ => { assert(k / 1real == k) by(nonlinear_arith); },
    }
}

/// every conversion between two of the scales preserves the absolute temperature
pub proof fn lemma_c09_preserves_kelvin(target: Unit, source: Unit, x: real, y: real)
    requires temp_scale(target), temp_scale(source), converts(sole(target), sole(source), x, y)
    ensures kelvin_of(target, y) == kelvin_of(source, x)
{
    lemma_sole_to(source, x);
    lemma_sole_from(target, kelvin_of(source, x), y);
}

/// K = C + 273.15 and back
pub proof fn lemma_c09_celsius_kelvin(c: Derived, x: real, y: real, z: real)
    requires celsius_table(c), converts(sole(Unit::Kelvin), sole(Unit::Derived(c)), x, y), converts(sole(Unit::Derived(c)), sole(Unit::Kelvin), y, z)
    ensures y == x + 27315real / 100real, z == x
{
    lemma_c09_preserves_kelvin(Unit::Kelvin, Unit::Derived(c), x, y);
    lemma_c09_preserves_kelvin(Unit::Derived(c), Unit::Kelvin, y, z);
}

/// C = (F - 32) * 5/9 and F = C * 9/5 + 32
pub proof fn lemma_c09_fahrenheit_celsius(c: Derived, f: Derived, x: real, y: real, w: real, v: real)
    requires celsius_table(c), fahrenheit_table(f), !celsius_table(f),
        converts(sole(Unit::Derived(c)), sole(Unit::Derived(f)), x, y),
        converts(sole(Unit::Derived(f)), sole(Unit::Derived(c)), w, v),
    ensures y == (x - 32real) * 5real / 9real, v == w * 9real / 5real + 32real
{
    lemma_c09_preserves_kelvin(Unit::Derived(c), Unit::Derived(f), x, y);
    lemma_c09_preserves_kelvin(Unit::Derived(f), Unit::Derived(c), w, v);
    assert(v == w * 9real / 5real + 32real) by(nonlinear_arith) requires (v - 32real) * 5real / 9real + 27315real / 100real == w + 27315real / 100real;
}

/// F <-> K
pub proof fn lemma_c09_fahrenheit_kelvin(f: Derived, x: real, y: real, w: real, v: real)
    requires fahrenheit_table(f), !celsius_table(f),
        converts(sole(Unit::Kelvin), sole(Unit::Derived(f)), x, y),
        converts(sole(Unit::Derived(f)), sole(Unit::Kelvin), w, v),
    ensures y == (x - 32real) * 5real / 9real + 27315real / 100real, v == (w - 27315real / 100real) * 9real / 5real + 32real
{
    lemma_c09_preserves_kelvin(Unit::Kelvin, Unit::Derived(f), x, y);
    lemma_c09_preserves_kelvin(Unit::Derived(f), Unit::Kelvin, w, v);
    assert(v == (w - 27315real / 100real) * 9real / 5real + 32real) by(nonlinear_arith) requires (v - 32real) * 5real / 9real + 27315real / 100real == w;
}

/// kelvin_of is injective on each scale: equal absolute temperature means equal reading
pub proof fn lemma_kelvin_of_injective(u: Unit, a: real, b: real)
    requires kelvin_of(u, a) == kelvin_of(u, b)
    ensures a == b
{
    match u {
        Unit::Derived(d) => {
            if !celsius_table(d) {
                assert(a == b) by(nonlinear_arith) requires (a - 32real) * 5real / 9real + 27315real / 100real == (b - 32real) * 5real / 9real + 27315real / 100real;
            }
        },
        _ => {},
    }
}

/// exactly invertible: there and back returns the original reading, for every magnitude
pub proof fn lemma_c09_inverse(a: Unit, b: Unit, x: real, y: real, z: real)
    requires temp_scale(a), temp_scale(b), converts(sole(b), sole(a), x, y), converts(sole(a), sole(b), y, z)
    ensures z == x
{
    lemma_c09_preserves_kelvin(b, a, x, y);
    lemma_c09_preserves_kelvin(a, b, y, z);
    lemma_kelvin_of_injective(a, z, x);
}

/// composition: a -> b -> c ends where a -> c does (by induction any chain does)
pub proof fn lemma_c09_compose(a: Unit, b: Unit, c: Unit, x: real, y: real, z: real, direct: real)
    requires temp_scale(a), temp_scale(b), temp_scale(c),
        converts(sole(b), sole(a), x, y), converts(sole(c), sole(b), y, z), converts(sole(c), sole(a), x, direct),
    ensures z == direct
{
    lemma_c09_preserves_kelvin(b, a, x, y);
    lemma_c09_preserves_kelvin(c, b, y, z);
    lemma_c09_preserves_kelvin(c, a, x, direct);
    lemma_kelvin_of_injective(c, z, direct);
}

/// the guard of the property: whenever factor() converts (Ok(true)) a unit in which an offset scale is squared, inverted or
/// multiplied with other units, [compound.factor.offset_guard] is contradicted -- i.e. such conversions are refused
pub proof fn lemma_c09_guard(s: Seq<(Unit, State)>, i: int)
    requires offset_ok(s), 0 <= i < s.len(), offset_unit(s[i].0)
    ensures s.len() == 1 && s[i].1.power == 1
{
}

/// reachability of the hypotheses above (vacuity guard): a Celsius reading does convert to kelvin, with the expected result
pub proof fn lemma_c09_witness(c: Derived, x: real)
    requires celsius_table(c)
    ensures converts(sole(Unit::Kelvin), sole(Unit::Derived(c)), x, x + 27315real / 100real)
{
    lemma_sole_to(Unit::Derived(c), x);
    let k = x + 27315real / 100real;
    let s = sole(Unit::Kelvin);
    assert(s.drop_last() =~= Seq::<(Unit, State)>::empty());
    assert(chain_from(s.drop_last(), k) == Some(k));
    assert(s.last() == (Unit::Kelvin, State { power: 1i32, prefix: 0i32 }));
    assert(qpow(10real, 0int * 1int) == 1real);
    assert(k / 1real == k) by(nonlinear_arith);
}
