// ---------------------------------------------------------------------------------------------
// C13: the field laws as lemmas over the operator postconditions (add_post / sub_post / mul_post / div_post are the very
// predicates the real eval::{add,sub,mul,div} are proved to establish).  Quantities are arbitrary Numerics (a literal with
// a unit, or a fact from the database: a fact is just (value, unit)); results are arbitrary values satisfying the
// postconditions.  Equality is equality of the SI value (sem_val) and of every base dimension.

pub proof fn lemma_add_sem(a: Numeric, b: Numeric, n: Numeric)
    requires add_post(a, b, n)
    ensures sem_val(n) == sem_val(a) + sem_val(b)
{
    let sa = scale(a.unit.ents()); let sb = scale(b.unit.ents()); let x = a.value@; let y = b.value@;
    assert((x + y * sb / sa) * sa == x * sa + y * sb) by(nonlinear_arith) requires sa != 0real;
}

pub proof fn lemma_sub_sem(a: Numeric, b: Numeric, n: Numeric)
    requires sub_post(a, b, n)
    ensures sem_val(n) == sem_val(a) - sem_val(b)
{
    let sa = scale(a.unit.ents()); let sb = scale(b.unit.ents()); let x = a.value@; let y = b.value@;
    assert((x - y * sb / sa) * sa == x * sa - y * sb) by(nonlinear_arith) requires sa != 0real;
}

/// a + b == b + a
pub proof fn lemma_c13_add_comm(a: Numeric, b: Numeric, r1: Numeric, r2: Numeric)
    requires add_post(a, b, r1), add_post(b, a, r2), same_dims(a.unit.ents(), b.unit.ents())
    ensures sem_val(r1) == sem_val(r2), same_dims(r1.unit.ents(), r2.unit.ents())
{
    lemma_add_sem(a, b, r1); lemma_add_sem(b, a, r2);
}

/// a * b == b * a
pub proof fn lemma_c13_mul_comm(a: Numeric, b: Numeric, r1: Numeric, r2: Numeric)
    requires mul_post(a, b, r1), mul_post(b, a, r2)
    ensures sem_val(r1) == sem_val(r2), same_dims(r1.unit.ents(), r2.unit.ents())
{
    let x = sem_val(a); let y = sem_val(b);
    assert(x * y == y * x) by(nonlinear_arith);
}

/// (a + b) + c == a + (b + c)
pub proof fn lemma_c13_add_assoc(a: Numeric, b: Numeric, c: Numeric, ab: Numeric, bc: Numeric, r1: Numeric, r2: Numeric)
    requires add_post(a, b, ab), add_post(ab, c, r1), add_post(b, c, bc), add_post(a, bc, r2)
    ensures sem_val(r1) == sem_val(r2), r1.unit == r2.unit
{
    lemma_add_sem(a, b, ab); lemma_add_sem(ab, c, r1); lemma_add_sem(b, c, bc); lemma_add_sem(a, bc, r2);
}

/// (a * b) * c == a * (b * c)
pub proof fn lemma_c13_mul_assoc(a: Numeric, b: Numeric, c: Numeric, ab: Numeric, bc: Numeric, r1: Numeric, r2: Numeric)
    requires mul_post(a, b, ab), mul_post(ab, c, r1), mul_post(b, c, bc), mul_post(a, bc, r2)
    ensures sem_val(r1) == sem_val(r2), same_dims(r1.unit.ents(), r2.unit.ents())
{
    let x = sem_val(a); let y = sem_val(b); let z = sem_val(c);
    assert((x * y) * z == x * (y * z)) by(nonlinear_arith);
}

/// a * (b + c) == a * b + a * c
pub proof fn lemma_c13_distrib(a: Numeric, b: Numeric, c: Numeric, bc: Numeric, r1: Numeric, ab: Numeric, ac: Numeric, r2: Numeric)
    requires add_post(b, c, bc), mul_post(a, bc, r1), mul_post(a, b, ab), mul_post(a, c, ac), add_post(ab, ac, r2), same_dims(b.unit.ents(), c.unit.ents())
    ensures sem_val(r1) == sem_val(r2), same_dims(r1.unit.ents(), r2.unit.ents())
{
    lemma_add_sem(b, c, bc); lemma_add_sem(ab, ac, r2);
    let x = sem_val(a); let y = sem_val(b); let z = sem_val(c);
    assert(x * (y + z) == x * y + x * z) by(nonlinear_arith);
}

/// a - a == 0
pub proof fn lemma_c13_sub_self(a: Numeric, r: Numeric)
    requires sub_post(a, a, r)
    ensures sem_val(r) == 0real, r.unit == a.unit
{
    lemma_sub_sem(a, a, r);
}

/// a / a == 1, dimensionless
pub proof fn lemma_c13_div_self(a: Numeric, r: Numeric)
    requires div_post(a, a, r)
    ensures sem_val(r) == 1real, forall|k: Unit| dims(r.unit.ents(), k) == 0
{
    let x = sem_val(a);
    assert(x / x == 1real) by(nonlinear_arith) requires x != 0real;
}
