// ---------------------------------------------------------------------------------------------
// SPEC + LEMMAS: order-independent scale / dimension of a unit map (needed where the code mutates a BTreeMap
// through the entry API: Compound::mul, reconstruct, Compound::pow).  Linked to the sequence-based `scale` / `dims`
// of a Compound by lemma_seq_repr.
pub open spec fn mscale(m: Map<Unit, State>) -> real
    decreases m.dom().len() when m.dom().finite()
{
    if m.dom().len() > 0 {
        let k = m.dom().choose();
        mscale(m.remove(k)) * ent_scale((k, m[k]))
    } else {
        1real
    }
}

pub open spec fn mdims(m: Map<Unit, State>, b: Unit) -> int
    decreases m.dom().len() when m.dom().finite()
{
    if m.dom().len() > 0 {
        let k = m.dom().choose();
        mdims(m.remove(k), b) + m[k].power as int * udim(k, b)
    } else {
        0int
    }
}

pub proof fn lemma_mscale_remove(m: Map<Unit, State>, k: Unit)
    requires m.dom().finite(), m.contains_key(k)
    ensures mscale(m) == mscale(m.remove(k)) * ent_scale((k, m[k]))
    decreases m.dom().len()
{
    let c = m.dom().choose();
    assert(m.dom().len() > 0) by { if m.dom().len() == 0 { assert(m.dom() =~= Set::<Unit>::empty()); } }
    if c == k {
    } else {
        let mc = m.remove(c);
        let mk = m.remove(k);
        assert(m.contains_key(c));
        assert(mc.contains_key(k) && mc[k] == m[k]);
        assert(mk.contains_key(c) && mk[c] == m[c]);
        lemma_mscale_remove(mc, k);
        lemma_mscale_remove(mk, c);
        assert(mc.remove(k) =~= mk.remove(c));
        let base = mscale(mc.remove(k));
        let ek = ent_scale((k, m[k])); let ec = ent_scale((c, m[c]));
        assert((base * ek) * ec == (base * ec) * ek) by(nonlinear_arith);
    }
}

pub proof fn lemma_mdims_remove(m: Map<Unit, State>, k: Unit, b: Unit)
    requires m.dom().finite(), m.contains_key(k)
    ensures mdims(m, b) == mdims(m.remove(k), b) + m[k].power as int * udim(k, b)
    decreases m.dom().len()
{
    let c = m.dom().choose();
    assert(m.dom().len() > 0) by { if m.dom().len() == 0 { assert(m.dom() =~= Set::<Unit>::empty()); } }
    if c == k {
    } else {
        let mc = m.remove(c);
        let mk = m.remove(k);
        assert(m.contains_key(c));
        assert(mc.contains_key(k) && mc[k] == m[k]);
        assert(mk.contains_key(c) && mk[c] == m[c]);
        lemma_mdims_remove(mc, k, b);
        lemma_mdims_remove(mk, c, b);
        assert(mc.remove(k) =~= mk.remove(c));
    }
}

pub proof fn lemma_mscale_insert(m: Map<Unit, State>, k: Unit, v: State)
    requires m.dom().finite()
    ensures mscale(m.insert(k, v)) == mscale(m.remove(k)) * ent_scale((k, v))
{
    let mi = m.insert(k, v);
    lemma_mscale_remove(mi, k);
    assert(mi.remove(k) =~= m.remove(k));
}

pub proof fn lemma_mdims_insert(m: Map<Unit, State>, k: Unit, v: State, b: Unit)
    requires m.dom().finite()
    ensures mdims(m.insert(k, v), b) == mdims(m.remove(k), b) + v.power as int * udim(k, b)
{
    let mi = m.insert(k, v);
    lemma_mdims_remove(mi, k, b);
    assert(mi.remove(k) =~= m.remove(k));
}

pub proof fn lemma_mscale_empty()
    ensures mscale(Map::<Unit, State>::empty()) == 1real, forall|b: Unit| mdims(Map::<Unit, State>::empty(), b) == 0
{
    assert(Map::<Unit, State>::empty().dom().len() == 0);
}

/// `s` lists the entries of `m` exactly once each
pub open spec fn seq_repr(s: Seq<(Unit, State)>, m: Map<Unit, State>) -> bool {
    m.dom().finite() && s.len() == m.dom().len()
    && (forall|i: int| 0 <= i < s.len() ==> m.contains_key(#[trigger] s[i].0) && m[s[i].0] == s[i].1)
    && (forall|i: int, j: int| 0 <= i < j < s.len() ==> (#[trigger] s[i]).0 != (#[trigger] s[j]).0)
}

pub proof fn lemma_seq_repr_step(s: Seq<(Unit, State)>, m: Map<Unit, State>)
    requires seq_repr(s, m), s.len() > 0
    ensures seq_repr(s.drop_last(), m.remove(s.last().0)), m.contains_key(s.last().0), m[s.last().0] == s.last().1
{
    let k = s.last().0;
    let t = s.drop_last();
    let mk = m.remove(k);
    assert(s[s.len() - 1] == s.last());
    assert(m.contains_key(s[s.len() - 1].0));
    assert forall|i: int| 0 <= i < t.len() implies mk.contains_key(#[trigger] t[i].0) && mk[t[i].0] == t[i].1 by {
        assert(t[i] == s[i]);
        assert(s[i].0 != s[s.len() - 1].0);
    }
    assert forall|i: int, j: int| 0 <= i < j < t.len() implies (#[trigger] t[i]).0 != (#[trigger] t[j]).0 by {
        assert(t[i] == s[i] && t[j] == s[j]);
    }
}

pub proof fn lemma_seq_repr(s: Seq<(Unit, State)>, m: Map<Unit, State>)
    requires seq_repr(s, m)
    ensures scale(s) == mscale(m), forall|b: Unit| dims(s, b) == mdims(m, b)
    decreases s.len()
{
    if s.len() == 0 {
        assert(m.dom().len() == 0);
    } else {
        lemma_seq_repr_step(s, m);
        let k = s.last().0;
        lemma_seq_repr(s.drop_last(), m.remove(k));
        lemma_mscale_remove(m, k);
        assert forall|b: Unit| dims(s, b) == mdims(m, b) by {
            lemma_mdims_remove(m, k, b);
        }
    }
}

/// sum of s_j * udim(u_j, b) over a Powers entry list
pub open spec fn psum(s: Seq<(Unit, i32)>, b: Unit) -> int
    decreases s.len()
{
    if s.len() == 0 { 0int } else { psum(s.drop_last(), b) + s.last().1 as int * udim(s.last().0, b) }
}

pub open spec fn pseq_repr(s: Seq<(Unit, i32)>, m: Map<Unit, i32>) -> bool {
    m.dom().finite() && s.len() == m.dom().len()
    && (forall|i: int| 0 <= i < s.len() ==> m.contains_key(#[trigger] s[i].0) && m[s[i].0] == s[i].1)
    && (forall|i: int, j: int| 0 <= i < j < s.len() ==> (#[trigger] s[i]).0 != (#[trigger] s[j]).0)
}

/// for a list of base units the sum is just the exponent of `b` in the map
pub proof fn lemma_psum_base(s: Seq<(Unit, i32)>, m: Map<Unit, i32>, b: Unit)
    requires pseq_repr(s, m), forall|i: int| 0 <= i < s.len() ==> is_base(#[trigger] s[i].0)
    ensures psum(s, b) == pw_get(m, b)
    decreases s.len()
{
    if s.len() == 0 {
        assert(m.dom().len() == 0);
        if m.contains_key(b) { assert(m.dom().contains(b)); assert(m.dom() =~= Set::<Unit>::empty()); }
    } else {
        let k = s.last().0;
        let t = s.drop_last();
        let mk = m.remove(k);
        assert(s[s.len() - 1] == s.last());
        assert(m.contains_key(s[s.len() - 1].0));
        assert forall|i: int| 0 <= i < t.len() implies mk.contains_key(#[trigger] t[i].0) && mk[t[i].0] == t[i].1 by {
            assert(t[i] == s[i]);
            assert(s[i].0 != s[s.len() - 1].0);
        }
        assert forall|i: int, j: int| 0 <= i < j < t.len() implies (#[trigger] t[i]).0 != (#[trigger] t[j]).0 by {
            assert(t[i] == s[i] && t[j] == s[j]);
        }
        assert forall|i: int| 0 <= i < t.len() implies is_base(#[trigger] t[i].0) by { assert(t[i] == s[i]); }
        lemma_psum_base(t, mk, b);
        assert(is_base(s[s.len() - 1].0));
    }
}

/// a base unit with prefix 0 contributes the factor 1 whatever its power
pub proof fn lemma_base_ent_scale(u: Unit, p: i32)
    requires is_base(u)
    ensures ent_scale((u, State { power: p, prefix: 0 })) == 1real
{
    lemma_qpow_one(p as int);
    lemma_zero_mul(0, p as int);
}

/// an entry with prefix 0 contributes factor^power
pub proof fn lemma_ent_scale_prefix0(u: Unit, st: State)
    requires st.prefix == 0
    ensures ent_scale((u, st)) == qpow(factor_of(u), st.power as int)
{
    lemma_zero_mul(st.prefix as int, st.power as int);
    assert(qpow(10real, 0) == 1real);
    let x = qpow(factor_of(u), st.power as int);
    assert(1real * x == x);
}

/// (unit^power with prefix)^n has the n-th power of the scale
pub proof fn lemma_ent_scale_pow(k: Unit, st: State, n: int)
    requires proportional_unit(k), i32::MIN <= st.power as int * n <= i32::MAX
    ensures ent_scale((k, State { power: (st.power as int * n) as i32, prefix: st.prefix })) == qpow(ent_scale((k, st)), n), ent_scale((k, st)) != 0real
{
    let p = st.power as int; let pre = st.prefix as int;
    lemma_ent_scale_ne0((k, st));
    let f = factor_of(k);
    let a = qpow(10real, pre * p); let bq = qpow(f, p);
    lemma_qpow_ne0(10real, pre * p); lemma_qpow_ne0(f, p);
    lemma_qpow_pow(10real, pre * p, n); lemma_qpow_pow(f, p, n);
    lemma_qpow_mul_base(a, bq, n);
    assert((pre * p) * n == pre * (p * n)) by(nonlinear_arith);
}

/// r is m with every power multiplied by n (n = +-1 keeps every entry)
pub open spec fn map_scaled(m: Map<Unit, State>, r: Map<Unit, State>, n: int) -> bool {
    r.dom() =~= m.dom() && (forall|k: Unit| m.contains_key(k) ==> (#[trigger] r[k]).prefix == m[k].prefix && r[k].power as int == m[k].power as int * n)
}

pub proof fn lemma_map_scaled(m: Map<Unit, State>, r: Map<Unit, State>, n: int)
    requires m.dom().finite(), map_scaled(m, r, n)
    ensures forall|b: Unit| mdims(r, b) == n * mdims(m, b),
        (forall|k: Unit| m.contains_key(k) ==> proportional_unit(k)) ==> mscale(m) != 0real && mscale(r) == qpow(mscale(m), n)
    decreases m.dom().len()
{
    if m.dom().len() == 0 {
        assert(r.dom().len() == 0);
        lemma_qpow_one(n);
        assert forall|b: Unit| mdims(r, b) == n * mdims(m, b) by { assert(n * 0 == 0); }
    } else {
        let k = m.dom().choose();
        assert(m.contains_key(k));
        let mk = m.remove(k); let rk = r.remove(k);
        assert(map_scaled(mk, rk, n)) by {
            assert(rk.dom() =~= mk.dom());
        }
        lemma_map_scaled(mk, rk, n);
        assert forall|b: Unit| mdims(r, b) == n * mdims(m, b) by {
            lemma_mdims_remove(r, k, b);
            lemma_mdims_remove(m, k, b);
            let d = udim(k, b); let p = m[k].power as int;
            assert(n * (mdims(mk, b) + p * d) == n * mdims(mk, b) + (p * n) * d) by(nonlinear_arith);
        }
        if forall|k2: Unit| m.contains_key(k2) ==> proportional_unit(k2) {
            assert(forall|k2: Unit| mk.contains_key(k2) ==> proportional_unit(k2));
            lemma_mscale_remove(r, k);
            lemma_mscale_remove(m, k);
            lemma_ent_scale_pow(k, m[k], n);
            assert(r[k] == State { power: (m[k].power as int * n) as i32, prefix: m[k].prefix });
            let a = mscale(mk); let e = ent_scale((k, m[k]));
            lemma_qpow_mul_base(a, e, n);
            assert(a * e != 0real) by(nonlinear_arith) requires a != 0real, e != 0real;
        }
    }
}
