// ---------------------------------------------------------------------------------------------
// SPEC + LEMMAS for Compound::factor / mul (C02, C03, C09)

/// source side of one entry: prefix first, then the unit's conversion applied `power` times
pub open spec fn ent_to(e: (Unit, State), x: real) -> Option<real> {
    let y = x * qpow(10real, e.1.prefix as int * e.1.power as int);
    match unit_conv(e.0) {
        None => Some(y),
        Some(c) => conv_apply(e.1.power as int, y, c),
    }
}

pub open spec fn chain_to(s: Seq<(Unit, State)>, x: real) -> Option<real>
    decreases s.len()
{
    if s.len() == 0 { Some(x) } else {
        match chain_to(s.drop_last(), x) { None => None, Some(y) => ent_to(s.last(), y) }
    }
}

/// target side of one entry: inverse conversion, then divide the prefix out
pub open spec fn ent_from(e: (Unit, State), x: real) -> Option<real> {
    let r = match unit_conv(e.0) {
        None => Some(x),
        Some(c) => conv_apply(-(e.1.power as int), x, c),
    };
    match r { None => None, Some(y) => Some(y / qpow(10real, e.1.prefix as int * e.1.power as int)) }
}

pub open spec fn chain_from(s: Seq<(Unit, State)>, x: real) -> Option<real>
    decreases s.len()
{
    if s.len() == 0 { Some(x) } else {
        match chain_from(s.drop_last(), x) { None => None, Some(y) => ent_from(s.last(), y) }
    }
}

pub proof fn lemma_maps_equal<K, V>(a: Map<K, V>, b: Map<K, V>)
    requires
        a.dom().finite(), b.dom().finite(),
        a.dom().len() == b.dom().len(),
        forall|k: K| #[trigger] b.dom().contains(k) ==> a.dom().contains(k) && a[k] == b[k],
    ensures a =~= b
{
    assert forall|k: K| b.dom().contains(k) implies a.dom().contains(k) by {}
    assert(b.dom().subset_of(a.dom()));
    vstd::set_lib::lemma_subset_equality(b.dom(), a.dom());
    assert(a.dom() =~= b.dom());
}

/// two zero-free maps that agree pointwise (absent = 0) are the same map
pub proof fn lemma_wf_repr_eq(m1: Map<Unit, i32>, m2: Map<Unit, i32>)
    requires pw_wf(m1), pw_wf(m2), forall|k: Unit| pw_get(m1, k) == pw_get(m2, k)
    ensures m1 =~= m2
{
    assert forall|k: Unit| m1.contains_key(k) == m2.contains_key(k) by {
        assert(pw_get(m1, k) == pw_get(m2, k));
        if m1.contains_key(k) { assert(m1[k] != 0); }
        if m2.contains_key(k) { assert(m2[k] != 0); }
    }
    assert forall|k: Unit| m1.contains_key(k) implies m1[k] == m2[k] by {
        assert(pw_get(m1, k) == pw_get(m2, k));
    }
}

pub proof fn lemma_ent_scale_ne0(e: (Unit, State))
    requires proportional_unit(e.0)
    ensures ent_scale(e) != 0real, factor_of(e.0) != 0real
{
    lemma_qpow_ne0(10real, e.1.prefix as int * e.1.power as int);
    match unit_conv(e.0) {
        Some(Conversion::Factor(f)) => {
            let n = f.numer as real; let d = f.denom as real;
            assert(n / d != 0real) by(nonlinear_arith) requires n != 0real, d != 0real;
        },
        _ => {},
    }
    lemma_qpow_ne0(factor_of(e.0), e.1.power as int);
    let a = qpow(10real, e.1.prefix as int * e.1.power as int); let b = qpow(factor_of(e.0), e.1.power as int);
    assert(a * b != 0real) by(nonlinear_arith) requires a != 0real, b != 0real;
}

pub proof fn lemma_scale_ne0(s: Seq<(Unit, State)>)
    requires proportional(s)
    ensures scale(s) != 0real
    decreases s.len()
{
    if s.len() > 0 {
        assert(proportional(s.drop_last())) by {
            assert forall|i: int| 0 <= i < s.drop_last().len() implies proportional_unit(#[trigger] s.drop_last()[i].0) by { assert(s.drop_last()[i] == s[i]); }
        }
        lemma_scale_ne0(s.drop_last());
        assert(proportional_unit(s[s.len() - 1].0));
        lemma_ent_scale_ne0(s.last());
        let a = scale(s.drop_last()); let b = ent_scale(s.last());
        assert(a * b != 0real) by(nonlinear_arith) requires a != 0real, b != 0real;
    }
}

/// proportional units: the source side multiplies by the entry's scale
pub proof fn lemma_ent_to_prop(e: (Unit, State), x: real)
    requires proportional_unit(e.0)
    ensures ent_to(e, x) == Some(x * ent_scale(e))
{
    let a = qpow(10real, e.1.prefix as int * e.1.power as int);
    let b = qpow(factor_of(e.0), e.1.power as int);
    match unit_conv(e.0) {
        None => { lemma_qpow_one(e.1.power as int); assert(x * a == x * (a * 1real)) by(nonlinear_arith); },
        Some(Conversion::Factor(f)) => { assert((x * a) * b == x * (a * b)) by(nonlinear_arith); },
        _ => {},
    }
}

pub proof fn lemma_ent_from_prop(e: (Unit, State), x: real)
    requires proportional_unit(e.0)
    ensures ent_from(e, x) == Some(x / ent_scale(e)), ent_scale(e) != 0real
{
    lemma_ent_scale_ne0(e);
    let p = e.1.power as int;
    let a = qpow(10real, e.1.prefix as int * p);
    lemma_qpow_ne0(10real, e.1.prefix as int * p);
    match unit_conv(e.0) {
        None => {
            lemma_qpow_one(p);
            assert(x / a == x / (a * 1real)) by(nonlinear_arith) requires a != 0real;
        },
        Some(Conversion::Factor(f)) => {
            let fr = frac(f);
            lemma_qpow_neg(fr, p);
            let b = qpow(fr, p);
            assert((x * (1real / b)) / a == x / (a * b)) by(nonlinear_arith) requires a != 0real, b != 0real;
        },
        _ => {},
    }
}

pub proof fn lemma_chain_to_prop(s: Seq<(Unit, State)>, x: real)
    requires proportional(s)
    ensures chain_to(s, x) == Some(x * scale(s))
    decreases s.len()
{
    if s.len() == 0 {
        assert(x * 1real == x);
    } else {
        assert(proportional(s.drop_last())) by {
            assert forall|i: int| 0 <= i < s.drop_last().len() implies proportional_unit(#[trigger] s.drop_last()[i].0) by { assert(s.drop_last()[i] == s[i]); }
        }
        lemma_chain_to_prop(s.drop_last(), x);
        assert(proportional_unit(s[s.len() - 1].0));
        lemma_ent_to_prop(s.last(), x * scale(s.drop_last()));
        let a = scale(s.drop_last()); let b = ent_scale(s.last());
        assert((x * a) * b == x * (a * b)) by(nonlinear_arith);
    }
}

pub proof fn lemma_chain_from_prop(s: Seq<(Unit, State)>, x: real)
    requires proportional(s)
    ensures chain_from(s, x) == Some(x / scale(s)), scale(s) != 0real
    decreases s.len()
{
    lemma_scale_ne0(s);
    if s.len() == 0 {
        assert(x / 1real == x) by(nonlinear_arith);
    } else {
        assert(proportional(s.drop_last())) by {
            assert forall|i: int| 0 <= i < s.drop_last().len() implies proportional_unit(#[trigger] s.drop_last()[i].0) by { assert(s.drop_last()[i] == s[i]); }
        }
        lemma_chain_from_prop(s.drop_last(), x);
        assert(proportional_unit(s[s.len() - 1].0));
        lemma_ent_from_prop(s.last(), x / scale(s.drop_last()));
        let a = scale(s.drop_last()); let b = ent_scale(s.last());
        assert((x / a) / b == x / (a * b)) by(nonlinear_arith) requires a != 0real, b != 0real;
    }
}

pub proof fn lemma_take_step<A>(s: Seq<A>, i: int)
    requires 0 <= i < s.len()
    ensures s.take(i + 1).drop_last() == s.take(i), s.take(i + 1).last() == s[i]
{
}
