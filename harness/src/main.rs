//! E2 `rac`: executes the real library through its public API for (1) witness search / replay,
//! (2) bounded stand-ins, (3) conformance sampling of assumed contracts.  Line protocol: one JSON
//! command per input line, one JSON answer per output line.  Never counted as proof.
use std::io::{BufRead, Write};
use std::panic::{catch_unwind, AssertUnwindSafe};

use anything::rational::DisplaySpec;
use anything::syntax::lexer::Lexer;
use anything::syntax::parser::Parser;
use anything::{Compound, Db, Rational};
use serde_json::{json, Value};

fn rat_json(r: &Rational) -> Value {
    json!({"n": r.numer().to_string(), "d": r.denom().to_string()})
}

/// entries of a compound via its own serialisation (CBOR value walk): [[unit, power, prefix]], unit = "Meter" | id
fn unit_json(c: &Compound) -> Value {
    let v = serde_cbor::value::to_value(c).expect("to_value");
    let mut out = Vec::new();
    if let serde_cbor::Value::Map(m) = v {
        for (k, names) in m {
            if let serde_cbor::Value::Text(t) = &k {
                if t != "names" {
                    continue;
                }
            }
            if let serde_cbor::Value::Map(entries) = names {
                for (unit, state) in entries {
                    let u = match unit {
                        serde_cbor::Value::Text(t) => json!(t),
                        serde_cbor::Value::Map(m) => {
                            let mut it = m.into_iter();
                            match it.next() {
                                Some((_, serde_cbor::Value::Integer(i))) => json!(i as u64),
                                other => json!(format!("{:?}", other)),
                            }
                        }
                        other => json!(format!("{:?}", other)),
                    };
                    let mut power = 0i64;
                    let mut prefix = 0i64;
                    if let serde_cbor::Value::Map(s) = state {
                        for (k, v) in s {
                            if let (serde_cbor::Value::Text(k), serde_cbor::Value::Integer(v)) = (k, v) {
                                if k == "power" {
                                    power = v as i64
                                } else if k == "prefix" {
                                    prefix = v as i64
                                }
                            }
                        }
                    }
                    out.push(json!([u, power, prefix]));
                }
            }
        }
    }
    json!(out)
}

fn panic_msg(e: Box<dyn std::any::Any + Send>) -> String {
    if let Some(s) = e.downcast_ref::<&str>() {
        s.to_string()
    } else if let Some(s) = e.downcast_ref::<String>() {
        s.clone()
    } else {
        "panic".to_string()
    }
}

fn do_query(db: &Db, q: &str, describe: bool) -> Value {
    let r = catch_unwind(AssertUnwindSafe(|| {
        let parsed = match anything::parse(q) {
            Ok(p) => p,
            Err(e) => return json!({"parse_error": e.to_string()}),
        };
        let mut options = anything::Options::default();
        if describe {
            options = options.describe();
        }
        let mut descriptions = Vec::new();
        let mut results = Vec::new();
        for r in anything::query(&parsed, db, options, &mut descriptions) {
            match r {
                Ok(n) => {
                    let shown = catch_unwind(AssertUnwindSafe(|| {
                        let spec = DisplaySpec::default();
                        format!("{} {}", n.value.display(&spec), n.unit.display(true))
                    }));
                    // C19 oracle ingredients: the library's own renderings (the binary must print these, chosen by rules the stand-in applies itself)
                    let cli = catch_unwind(AssertUnwindSafe(|| {
                        let mut spec = DisplaySpec::default();
                        spec.limit = 12;
                        spec.exponent_limit = 12;
                        spec.show_continuation = true;
                        (n.value.display(&spec).to_string(), n.unit.display(true).to_string(), n.unit.display(false).to_string())
                    }));
                    let (dec12, unit_plural, unit_singular) = match cli { Ok(t) => (json!(t.0), json!(t.1), json!(t.2)), Err(_) => (json!(null), json!(null), json!(null)) };
                    results.push(json!({"ok": {"value": rat_json(&n.value), "unit": unit_json(&n.unit), "unit_str": n.unit.to_string(),
                        "dec12": dec12, "unit_plural": unit_plural, "unit_singular": unit_singular,
                        "has_numerator": n.unit.has_numerator(),
                        "display": match shown { Ok(s) => json!(s), Err(e) => json!({"panic": panic_msg(e)}) }}}));
                }
                Err(e) => {
                    let range = e.range();
                    results.push(json!({"err": {"msg": e.to_string(), "start": range.start, "end": range.end,
                        "on_boundary": q.is_char_boundary(range.start.min(q.len())) && q.is_char_boundary(range.end.min(q.len())) && range.start <= range.end && range.end <= q.len()}}));
                }
            }
        }
        let descs: Vec<Value> = descriptions
            .iter()
            .map(|d| match d {
                anything::Description::Constant(s, c) => json!({"phrase": s.to_string(), "value": rat_json(&c.value), "unit": unit_json(&c.unit)}),
            })
            .collect();
        json!({"results": results, "descriptions": descs})
    }));
    match r {
        Ok(v) => v,
        Err(e) => json!({"panic": panic_msg(e)}),
    }
}

fn syntax_name(k: anything::syntax::parser::Syntax) -> String {
    format!("{:?}", k)
}

fn do_lex(s: &str) -> Value {
    let r = catch_unwind(AssertUnwindSafe(|| {
        let mut toks = Vec::new();
        let mut n = 0usize;
        for t in Lexer::new(s) {
            toks.push(json!([t.len, syntax_name(t.kind)]));
            n += 1;
            if n > 4 * s.len() + 16 {
                return json!({"nontermination": true, "tokens": toks});
            }
        }
        json!({"tokens": toks})
    }));
    match r {
        Ok(v) => v,
        Err(e) => json!({"panic": panic_msg(e)}),
    }
}

fn walk(node: syntree::Node<'_, anything::syntax::parser::Syntax, u32, u32>, depth: usize, out: &mut Vec<Value>) {
    let span = node.span();
    out.push(json!([depth, syntax_name(*node.value()), span.start, span.end, node.has_children()]));
    for c in node.children() {
        walk(c, depth + 1, out);
    }
}

fn do_parse(s: &str, unit: bool) -> Value {
    let r = catch_unwind(AssertUnwindSafe(|| {
        let p = Parser::new(s);
        let tree = if unit { p.parse_unit() } else { p.parse_root() };
        match tree {
            Ok(tree) => {
                let mut out = Vec::new();
                for c in tree.children() {
                    walk(c, 0, &mut out);
                }
                json!({"nodes": out})
            }
            Err(e) => json!({"tree_error": e.to_string()}),
        }
    }));
    match r {
        Ok(v) => v,
        Err(e) => json!({"panic": panic_msg(e)}),
    }
}

#[derive(serde::Deserialize)]
struct DbDoc {
    #[serde(default)]
    constants: Vec<serde_cbor::Value>,
}

/// decode every constant of one shipped data file completely, re-encode it and decode again (C17 stand-in)
fn do_constants(path: &str) -> Value {
    let r = catch_unwind(AssertUnwindSafe(|| {
        let bytes = match std::fs::read(path) {
            Ok(b) => b,
            Err(e) => return json!({"err": e.to_string()}),
        };
        let doc: DbDoc = match serde_cbor::from_reader(flate2::read::GzDecoder::new(std::io::Cursor::new(bytes))) {
            Ok(d) => d,
            Err(e) => return json!({"err": format!("file does not decode: {}", e)}),
        };
        let mut out = Vec::new();
        for v in doc.constants {
            let enc = serde_cbor::to_vec(&v).expect("re-encode value");
            let c: Result<anything::Constant, _> = serde_cbor::from_slice(&enc);
            match c {
                Err(e) => out.push(json!({"decode_err": e.to_string(), "raw": format!("{:?}", v).chars().take(200).collect::<String>()})),
                Ok(c) => {
                    let enc2 = serde_cbor::to_vec(&c).expect("encode constant");
                    match serde_cbor::from_slice::<anything::Constant>(&enc2) {
                        Err(e) => out.push(json!({"redecode_err": e.to_string(), "tokens": c.tokens})),
                        Ok(c2) => out.push(json!({"tokens": c.tokens, "eq": c.value == c2.value && c.unit == c2.unit && c.description == c2.description && c.source == c2.source && c.tokens == c2.tokens,
                            "value": rat_json(&c.value), "unit": unit_json(&c.unit), "has_description": !c.description.is_empty()})),
                    }
                }
            }
        }
        json!({"constants": out})
    }));
    match r {
        Ok(v) => v,
        Err(e) => json!({"panic": panic_msg(e)}),
    }
}

fn big(s: &str) -> num::BigInt {
    s.parse().expect("bigint")
}

fn main() {
    // silence the default panic hook: panics are reported in-band
    std::panic::set_hook(Box::new(|_| {}));
    // RAC_DB_DISK: open the on-disk database under $XDG_DATA_HOME (built on first use) so that several processes share ONE database
    // (an in-memory index is rebuilt per process by a multi-threaded writer: equal-score matches are then ordered differently per process)
    let db = if std::env::var_os("RAC_DB_DISK").is_some() { Db::open().expect("on-disk db") } else { Db::in_memory().expect("in-memory db") };
    let stdin = std::io::stdin();
    let stdout = std::io::stdout();
    let mut out = std::io::BufWriter::new(stdout.lock());
    for line in stdin.lock().lines() {
        let line = match line {
            Ok(l) => l,
            Err(_) => break,
        };
        if line.trim().is_empty() {
            continue;
        }
        let cmd: Value = match serde_json::from_str(&line) {
            Ok(v) => v,
            Err(e) => {
                writeln!(out, "{}", json!({"bad_command": e.to_string()})).unwrap();
                continue;
            }
        };
        let c = cmd["cmd"].as_str().unwrap_or("");
        let ans = match c {
            "query" => do_query(&db, cmd["q"].as_str().unwrap_or(""), cmd["describe"].as_bool().unwrap_or(false)),
            "lex" => do_lex(cmd["s"].as_str().unwrap_or("")),
            "parse" => do_parse(cmd["s"].as_str().unwrap_or(""), false),
            "parse_unit" => do_parse(cmd["s"].as_str().unwrap_or(""), true),
            "rational" => {
                let s = cmd["s"].as_str().unwrap_or("");
                match catch_unwind(AssertUnwindSafe(|| s.parse::<Rational>())) {
                    Ok(Ok(r)) => json!({"ok": rat_json(&r)}),
                    Ok(Err(e)) => json!({"err": e.to_string()}),
                    Err(e) => json!({"panic": panic_msg(e)}),
                }
            }
            "compound" => {
                let s = cmd["s"].as_str().unwrap_or("");
                match catch_unwind(AssertUnwindSafe(|| s.parse::<Compound>())) {
                    Ok(Ok(c)) => json!({"ok": {"unit": unit_json(&c), "unit_str": c.to_string()}}),
                    Ok(Err(e)) => json!({"err": e.to_string()}),
                    Err(e) => json!({"panic": panic_msg(e)}),
                }
            }
            "display" => {
                let n = big(cmd["n"].as_str().unwrap_or("0"));
                let d = big(cmd["d"].as_str().unwrap_or("1"));
                let mut spec = DisplaySpec::default();
                spec.limit = cmd["limit"].as_u64().unwrap_or(6) as usize;
                spec.exponent_limit = cmd["exp"].as_u64().unwrap_or(8) as usize;
                spec.show_continuation = cmd["cont"].as_bool().unwrap_or(true);
                match catch_unwind(AssertUnwindSafe(|| {
                    let r = Rational::new(n, d);
                    r.display(&spec).to_string()
                })) {
                    Ok(s) => json!({"s": s}),
                    Err(e) => json!({"panic": panic_msg(e)}),
                }
            }
            "serde_rational" => {
                let n = big(cmd["n"].as_str().unwrap_or("0"));
                let d = big(cmd["d"].as_str().unwrap_or("1"));
                match catch_unwind(AssertUnwindSafe(|| {
                    let r = Rational::new(n, d);
                    let cb = serde_cbor::to_vec(&r).map_err(|e| e.to_string())?;
                    let r2: Rational = serde_cbor::from_slice(&cb).map_err(|e| e.to_string())?;
                    let js = serde_json::to_string(&r).map_err(|e| e.to_string())?;
                    let r3: Rational = serde_json::from_str(&js).map_err(|e| e.to_string())?;
                    Ok::<_, String>(json!({"cbor_eq": r == r2, "json_eq": r == r3, "cbor": rat_json(&r2), "json": rat_json(&r3)}))
                })) {
                    Ok(Ok(v)) => v,
                    Ok(Err(e)) => json!({"err": e}),
                    Err(e) => json!({"panic": panic_msg(e)}),
                }
            }
            "serde_compound" => {
                let s = cmd["s"].as_str().unwrap_or("");
                match catch_unwind(AssertUnwindSafe(|| {
                    // the stage that fails is reported: a word that does not parse is not a serialisation matter, a unit that
                    // parses and then does not encode / decode is
                    let c: Compound = s.parse().map_err(|e: anything::Error| format!("parse: {}", e))?;
                    let cb = serde_cbor::to_vec(&c).map_err(|e| format!("encode: {}", e))?;
                    let c2: Compound = serde_cbor::from_slice(&cb).map_err(|e| format!("decode: {}", e))?;
                    Ok::<_, String>(json!({"cbor_eq": c == c2, "unit": unit_json(&c), "unit2": unit_json(&c2)}))
                })) {
                    Ok(Ok(v)) => v,
                    Ok(Err(e)) => json!({"err": e}),
                    Err(e) => json!({"panic": panic_msg(e)}),
                }
            }
            "constants" => do_constants(cmd["path"].as_str().unwrap_or("")),
            "derived_id" => {
                // decode `Unit::Derived(<id>)` from CBOR through the real Deserialize impl (-> id_to_derived) and encode it again
                let id = cmd["id"].as_u64().unwrap_or(0);
                let mut m = std::collections::BTreeMap::new();
                m.insert(serde_cbor::Value::Text("Derived".into()), serde_cbor::Value::Integer(id as i128));
                let enc = serde_cbor::to_vec(&serde_cbor::Value::Map(m)).expect("encode");
                match catch_unwind(AssertUnwindSafe(|| serde_cbor::from_slice::<anything::Unit>(&enc))) {
                    Ok(Ok(u)) => {
                        let back = serde_cbor::value::to_value(&u).expect("to_value");
                        let id2 = match back {
                            serde_cbor::Value::Map(m) => m.into_iter().next().and_then(|(_, v)| if let serde_cbor::Value::Integer(i) = v { Some(i as u64) } else { None }),
                            _ => None,
                        };
                        json!({"decoded": true, "id_back": id2, "debug": format!("{:?}", u)})
                    }
                    Ok(Err(e)) => json!({"decoded": false, "err": e.to_string()}),
                    Err(e) => json!({"panic": panic_msg(e)}),
                }
            }
            "ping" => json!({"pong": true, "debug_assertions": cfg!(debug_assertions)}),
            _ => json!({"unknown_command": c}),
        };
        writeln!(out, "{}", ans).unwrap();
        out.flush().unwrap();
    }
}
