use vstd::prelude::*;
verus! {

proof fn lemma_maps_equal<K, V>(a: Map<K, V>, b: Map<K, V>)
    requires
        a.dom().finite(), b.dom().finite(),
        a.dom().len() == b.dom().len(),
        forall|k: K| #[trigger] b.dom().contains(k) ==> a.dom().contains(k) && a[k] == b[k],
    ensures a =~= b
{
    assert forall|k: K| b.dom().contains(k) implies a.dom().contains(k) by {}
    assert(b.dom().subset_of(a.dom()));
    vstd::set_lib::lemma_subset_equality(b.dom(), a.dom());
    assert(a.dom() =~= b.dom());
}

fn main() {}
}
