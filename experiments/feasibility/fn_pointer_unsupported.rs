use vstd::prelude::*;
verus! {

pub struct Numeric { pub v: i64 }
pub struct Error { pub k: u8 }
type Result<T, E = Error> = std::result::Result<T, E>;

fn add(span: u32, a: Numeric, b: Numeric) -> Result<Numeric> { Ok(Numeric { v: 0 }) }
fn sub(span: u32, a: Numeric, b: Numeric) -> Result<Numeric> { Ok(Numeric { v: 1 }) }

pub(crate) type BuiltIn = fn(u32, Numeric, Numeric) -> Result<Numeric>;

fn pick(k: u8) -> Result<Numeric> {
    let op = match k {
        0 => add,
        1 => sub,
        _ => return Err(Error { k }),
    };
    let r = op(1, Numeric { v: 1 }, Numeric { v: 2 })?;
    Ok(r)
}

pub(crate) fn builtin(name: &str) -> Option<BuiltIn> {
    let builtin: BuiltIn = match name {
        "add" => add,
        "sub" => sub,
        _ => return None,
    };

    Some(builtin)
}

fn main() {}
}
