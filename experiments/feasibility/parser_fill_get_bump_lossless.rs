#![feature(allocator_api)]
use vstd::prelude::*;
use std::collections::VecDeque;
verus! {

#[derive(Debug, Clone, Copy, PartialEq, Eq)]
#[allow(non_camel_case_types)]
pub enum Syntax { WHITESPACE, STAR, STARSTAR, SLASH, PLUS, DASH, CARET, COMMA, OPEN_PAREN, CLOSE_PAREN, OPEN_BRACE, CLOSE_BRACE, TO, WORD, SENTENCE, NUMBER, WITH_UNIT, UNIT, FN_NAME, FN_ARGUMENTS, FN_CALL, PERCENTAGE, OP_CAST, OP_ADD, OP_SUB, OP_IMPLICIT_MUL, OP_MUL, OP_DIV, OP_POWER, OPERATOR, OPERATION, ERROR, EOF }
use Syntax::*;

#[derive(Debug, Clone, Copy, PartialEq, Eq)]
pub struct Token {
    pub len: usize,
    pub kind: Syntax,
}

pub open spec fn sum_len(s: Seq<Token>) -> nat
    decreases s.len()
{
    if s.len() == 0 { 0 } else { sum_len(s.drop_last()) + s.last().len as nat }
}

pub proof fn lemma_sum_push(s: Seq<Token>, t: Token)
    ensures sum_len(s.push(t)) == sum_len(s) + t.len
{
    assert(s.push(t).drop_last() == s);
}

pub proof fn lemma_sum_concat(a: Seq<Token>, b: Seq<Token>)
    ensures sum_len(a + b) == sum_len(a) + sum_len(b)
    decreases b.len()
{
    if b.len() == 0 {
        assert(a + b == a);
    } else {
        lemma_sum_concat(a, b.drop_last());
        assert((a + b).drop_last() == a + b.drop_last());
        assert((a + b).last() == b.last());
    }
}

pub proof fn lemma_sum_front(s: Seq<Token>)
    requires s.len() > 0
    ensures sum_len(s) == s[0].len + sum_len(s.skip(1))
    decreases s.len()
{
    if s.len() == 1 {
        reveal_with_fuel(sum_len, 3);
        assert(s.drop_last().len() == 0);
        assert(s.skip(1).len() == 0);
        assert(sum_len(s.drop_last()) == 0);
        assert(sum_len(s.skip(1)) == 0);
        assert(s.last() == s[0]);
    } else {
        reveal_with_fuel(sum_len, 2);
        lemma_sum_front(s.drop_last());
        assert(s.drop_last().skip(1) == s.skip(1).drop_last());
        assert(s.skip(1).last() == s.last());
        assert(s.drop_last()[0] == s[0]);
    }
}

// ---------------------------------------------------------------- shims
pub mod syntree {
    use vstd::prelude::*;
    use super::{Syntax, Token};
    #[verifier::external_body]
    pub struct Error { _p: u8 }

    #[verifier::external_body]
    pub struct Checkpoint { _p: u8 }
    impl Checkpoint {
        pub uninterp spec fn depth(&self) -> nat;
    }

    #[verifier::external_body]
    pub struct Builder { _p: u8 }

    impl Builder {
        pub uninterp spec fn leaves(&self) -> Seq<Token>;
        pub uninterp spec fn depth(&self) -> nat;

        #[verifier::external_body]
        pub fn token(&mut self, kind: Syntax, len: usize) -> (r: Result<u32, Error>)
            ensures
                super::sum_len(old(self).leaves()) + len <= u32::MAX ==> r.is_ok(),
                r.is_ok() ==> final(self).leaves() == old(self).leaves().push(Token { len, kind }) && final(self).depth() == old(self).depth(),
        { unimplemented!() }

        #[verifier::external_body]
        pub fn open(&mut self, kind: Syntax) -> (r: Result<u32, Error>)
            ensures r.is_ok(), final(self).leaves() == old(self).leaves(), final(self).depth() == old(self).depth() + 1
        { unimplemented!() }

        #[verifier::external_body]
        pub fn close(&mut self) -> (r: Result<(), Error>)
            ensures old(self).depth() > 0 ==> r.is_ok(),
                r.is_ok() ==> final(self).leaves() == old(self).leaves() && final(self).depth() == old(self).depth() - 1
        { unimplemented!() }

        #[verifier::external_body]
        pub fn checkpoint(&mut self) -> (r: Result<Checkpoint, Error>)
            ensures r matches Ok(c) && c.depth() == old(self).depth(), final(self).leaves() == old(self).leaves(), final(self).depth() == old(self).depth()
        { unimplemented!() }

        #[verifier::external_body]
        pub fn close_at(&mut self, c: &Checkpoint, kind: Syntax) -> (r: Result<u32, Error>)
            ensures c.depth() == old(self).depth() ==> r.is_ok(),
                r.is_ok() ==> final(self).leaves() == old(self).leaves() && final(self).depth() == old(self).depth()
        { unimplemented!() }
    }
}

#[verifier::external_body]
pub struct Lexer<'a> { _p: &'a u8 }

impl<'a> Lexer<'a> {
    pub uninterp spec fn hist(&self) -> Seq<Token>;
    pub uninterp spec fn srclen(&self) -> nat;
    pub open spec fn pos(&self) -> nat { sum_len(self.hist()) }

    #[verifier::external_body]
    pub fn next(&mut self) -> (r: Option<Token>)
        requires old(self).pos() <= old(self).srclen()
        ensures final(self).srclen() == old(self).srclen(),
            final(self).pos() <= final(self).srclen(),
            match r {
                Some(t) => t.len >= 1 && final(self).hist() == old(self).hist().push(t),
                None => final(self).hist() == old(self).hist() && old(self).pos() == old(self).srclen(),
            }
    { unimplemented!() }
}

pub assume_specification<'a, T: Copy>[ Option::<&'a T>::copied ](o: Option<&'a T>) -> (r: Option<T>)
    ensures r == (match o { Some(x) => Some(*x), None => None::<T> });

pub assume_specification<T, A: std::alloc::Allocator>[ VecDeque::<T, A>::get ](d: &VecDeque<T, A>, i: usize) -> (r: Option<&T>)
    ensures r == (if i < d@.len() { Some(&d@[i as int]) } else { None::<&T> });

type Result<T, E = syntree::Error> = std::result::Result<T, E>;

#[derive(Debug, Clone, Copy, PartialEq, Eq, Hash)]
pub struct Skip(pub usize);

impl Skip {
    pub const ZERO: Self = Self(0);
    pub const ONE: Self = Self(1);
}

/// A parser.
pub struct Parser<'a> {
    lexer: Lexer<'a>,
    builder: syntree::Builder,
    buf: VecDeque<Token>,
}

impl<'a> Parser<'a> {
    pub closed spec fn inv(&self) -> bool {
        &&& self.lexer.pos() <= self.lexer.srclen()
        &&& self.lexer.srclen() <= u32::MAX
        &&& self.builder.leaves() + self.buf@ == self.lexer.hist()
    }
    pub closed spec fn leaves(&self) -> Seq<Token> { self.builder.leaves() }
    pub closed spec fn depth(&self) -> nat { self.builder.depth() }
    pub closed spec fn pending(&self) -> Seq<Token> { self.buf@ }
    pub closed spec fn srclen(&self) -> nat { self.lexer.srclen() }
    pub closed spec fn lexed(&self) -> Seq<Token> { self.lexer.hist() }

    /// Fill the buffer up until the size of `n`.
    fn fill(&mut self, n: usize)
        requires old(self).inv()
        ensures final(self).inv(), final(self).leaves() == old(self).leaves(), final(self).depth() == old(self).depth(),
            final(self).srclen() == old(self).srclen(),
            old(self).pending().is_prefix_of(final(self).pending()),
    {
        while self.buf.len() <= n
            invariant self.inv(), self.leaves() == old(self).leaves(), self.depth() == old(self).depth(),
                self.srclen() == old(self).srclen(),
                old(self).pending().is_prefix_of(self.pending()),
            decreases self.lexer.srclen() - self.lexer.pos()
        {
            let ghost h0 = self.lexer.hist();
            match self.lexer.next() {
                Some(t) => {
                    proof { lemma_sum_push(h0, t); }
                    self.buf.push_back(t);
                    assert(self.builder.leaves() + self.buf@ == self.lexer.hist());
                }
                None => break,
            }
        }
    }

    fn get(&mut self, n: usize) -> (r: Option<Token>)
        requires old(self).inv()
        ensures final(self).inv(), final(self).leaves() == old(self).leaves(), final(self).depth() == old(self).depth(),
            final(self).srclen() == old(self).srclen(),
            old(self).pending().is_prefix_of(final(self).pending()),
            r.is_some() ==> n < final(self).pending().len() && r.unwrap() == final(self).pending()[n as int],
            r.is_none() ==> final(self).pending().len() <= n,
    {
        self.fill(n);
        self.buf.get(n).copied()
    }

    pub(crate) fn bump(&mut self) -> (r: Result<()>)
        requires old(self).inv()
        ensures r.is_ok(), final(self).inv(), final(self).depth() == old(self).depth(),
            final(self).srclen() == old(self).srclen(),
            old(self).leaves().is_prefix_of(final(self).leaves()),
            final(self).leaves().len() <= old(self).leaves().len() + 1,
    {
        if let Some(t) = self.get(0) {
            proof {
                lemma_sum_concat(self.builder.leaves(), self.buf@);
                lemma_sum_front(self.buf@);
            }
            self.builder.token(t.kind, t.len)?;
            self.buf.pop_front();
            assert(self.builder.leaves() + self.buf@ == self.lexer.hist());
        }

        Ok(())
    }
}

fn main() {}
}
