use vstd::prelude::*;
verus! {
pub struct ParseRationalError(());

fn f(exp: u32, n: u32, dots: u32) -> (r: Result<u32, ParseRationalError>)
{
    let dots2 = dots.checked_add(1).ok_or(ParseRationalError(()))?;
    let exp = match exp.checked_mul(10).and_then(|exp| exp.checked_add(n)) {
        Some(exp) => exp,
        None => return Err(ParseRationalError(())),
    };
    Ok(exp)
}
fn main() {}
}
