use vstd::prelude::*;
use core::ops;
verus! {
pub struct Q { pub v: u32 }
impl<'a, 'b> ops::Mul<&'b Q> for &'a Q {
    type Output = Q;
    fn mul(self, rhs: &'b Q) -> (r: Q)
        ensures r.v == 7
    { Q { v: 7 } }
}
fn g(a: &Q, b: &Q) -> (r: Q)
    ensures r.v == 7
{
    a * b
}
fn h(a: &Q, b: &Q) -> (r: Q)
    ensures r.v == 7
{
    ops::Mul::mul(a, b)
}
fn main() {}
}
