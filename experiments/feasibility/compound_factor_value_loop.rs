use vstd::prelude::*;
verus! {

// ------------------------------------------------------------ spec vocabulary
pub open spec fn qpow(x: real, n: int) -> real
    decreases (if n >= 0 { n } else { -n })
{
    if n == 0 { 1real } else if n > 0 { x * qpow(x, n - 1) } else { qpow(x, n + 1) / x }
}

#[derive(Clone, Copy, PartialEq, Eq)]
pub struct Derived { pub id: u32 }

#[derive(Clone, Copy, PartialEq, Eq)]
pub enum Unit { Derived(Derived), KiloGram, Candela, Meter, Second, Ampere, Kelvin, Mole, Byte }

#[derive(Clone, Copy, PartialEq, Eq)]
pub struct State { pub power: i32, pub prefix: i32 }

pub struct ConversionFraction { pub numer: u128, pub denom: u128 }
#[verifier::external_body]
pub struct ConversionMethods { _p: u8 }
pub enum Conversion { Methods(ConversionMethods), Factor(ConversionFraction), Offset(ConversionFraction) }

pub uninterp spec fn unit_conv(u: Unit) -> Option<Conversion>;

pub open spec fn factor_of(u: Unit) -> real {
    match unit_conv(u) {
        Some(Conversion::Factor(f)) => f.numer as real / f.denom as real,
        _ => 1real,
    }
}

pub open spec fn proportional_unit(u: Unit) -> bool {
    match unit_conv(u) {
        None => true,
        Some(Conversion::Factor(f)) => f.denom != 0 && f.numer != 0,
        _ => false,
    }
}

pub open spec fn ent_scale(e: (Unit, State)) -> real {
    qpow(10real, e.1.prefix as int * e.1.power as int) * qpow(factor_of(e.0), e.1.power as int)
}

pub open spec fn scale(s: Seq<(Unit, State)>) -> real
    decreases s.len()
{
    if s.len() == 0 { 1real } else { scale(s.drop_last()) * ent_scale(s.last()) }
}

// ------------------------------------------------------------ shims
#[verifier::external_body]
pub struct Rational { _p: u8 }
impl Rational {
    pub uninterp spec fn view(&self) -> real;
    #[verifier::external_body]
    pub fn new(n: u128, d: u128) -> (r: Rational)
        requires d != 0
        ensures r@ == n as real / d as real
    { unimplemented!() }
    #[verifier::external_body]
    pub fn pow(&self, e: i32) -> (r: Rational)
        requires !(self@ == 0real && e < 0)
        ensures r@ == qpow(self@, e as int)
    { unimplemented!() }
    #[verifier::external_body]
    pub fn mul_assign(&mut self, rhs: Rational)
        ensures final(self)@ == old(self)@ * rhs@
    { unimplemented!() }
}

#[verifier::external_body]
#[verifier::reject_recursive_types(K)]
#[verifier::reject_recursive_types(V)]
pub struct BTreeMap<K, V> { _k: core::marker::PhantomData<(K, V)> }
impl<K, V> BTreeMap<K, V> {
    pub uninterp spec fn entries(&self) -> Seq<(K, V)>;
    #[verifier::external_body]
    pub fn iter(&self) -> (it: Iter<'_, K, V>)
        ensures it.rem() == self.entries()
    { unimplemented!() }
}
#[verifier::external_body]
#[verifier::reject_recursive_types(K)]
#[verifier::reject_recursive_types(V)]
pub struct Iter<'a, K, V> { _k: core::marker::PhantomData<&'a (K, V)> }
impl<'a, K, V> Iter<'a, K, V> {
    pub uninterp spec fn rem(&self) -> Seq<(K, V)>;
    #[verifier::external_body]
    pub fn next(&mut self) -> (r: Option<(&'a K, &'a V)>)
        ensures
            old(self).rem().len() == 0 ==> r.is_none() && final(self).rem() == old(self).rem(),
            old(self).rem().len() > 0 ==> (r matches Some(kv) && *kv.0 == old(self).rem()[0].0 && *kv.1 == old(self).rem()[0].1 && final(self).rem() == old(self).rem().skip(1)),
    { unimplemented!() }
}

pub struct CompoundError;

impl Unit {
    #[verifier::external_body]
    pub fn conversion(&self) -> (r: Option<Conversion>)
        ensures r == unit_conv(*self)
    { unimplemented!() }
}

// ------------------------------------------------------------ real code (apply_conversion: Factor arm only in this probe)
fn apply_conversion(
    pow: i32,
    ratio: &mut Rational,
    conversion: Conversion,
) -> (r: Result<(), CompoundError>)
    requires (conversion matches Conversion::Factor(f) && f.denom != 0 && f.numer != 0)
    ensures r.is_ok(), (conversion matches Conversion::Factor(f) && final(ratio)@ == old(ratio)@ * qpow(f.numer as real / f.denom as real, pow as int))
{
    match conversion {
        Conversion::Methods(methods) => {
            return Err(CompoundError);
        }
        Conversion::Factor(fraction) => {
            if pow != 0 {
                proof {
                    let n = fraction.numer as real; let d = fraction.denom as real;
                    assert(n / d != 0real) by(nonlinear_arith) requires n != 0real, d != 0real;
                }
                ratio.mul_assign(Rational::new(fraction.numer, fraction.denom).pow(pow));
            }
        }
        Conversion::Offset(fraction) => {
            return Err(CompoundError);
        }
    }

    Ok(())
}

pub open spec fn bounded(s: Seq<(Unit, State)>) -> bool {
    forall|i: int| 0 <= i < s.len() ==> -40000 <= #[trigger] s[i].1.power <= 40000 && -30 <= s[i].1.prefix <= 30 && proportional_unit(s[i].0)
}

proof fn lemma_scale_take(s: Seq<(Unit, State)>, i: int)
    requires 0 <= i < s.len()
    ensures scale(s.take(i + 1)) == scale(s.take(i)) * ent_scale(s[i])
{
    assert(s.take(i + 1).drop_last() == s.take(i));
    assert(s.take(i + 1).last() == s[i]);
}

pub struct Compound { names: BTreeMap<Unit, State> }

impl Compound {
    pub closed spec fn ents(&self) -> Seq<(Unit, State)> { self.names.entries() }

    // second half of `factor`, source side (desugared `for (name, state) in &other.names` by R5)
    fn apply_source(other: &Self, value: &mut Rational) -> (r: Result<(), CompoundError>)
        requires bounded(other.ents())
        ensures r.is_ok(), final(value)@ == old(value)@ * scale(other.ents())
    {
        let mut it = other.names.iter();
        let ghost all = other.ents();
        let ghost mut i: int = 0;
        loop
            invariant
                0 <= i <= all.len(), all == other.ents(), bounded(all),
                it.rem() == all.skip(i),
                value@ == old(value)@ * scale(all.take(i)),
            ensures
                value@ == old(value)@ * scale(all),
            decreases all.len() - i
        {
            match it.next() {
                Some((name, state)) => {
                    assert(all.skip(i)[0] == all[i]);
                    assert(-40000 <= all[i].1.power <= 40000 && -30 <= all[i].1.prefix <= 30 && proportional_unit(all[i].0));
                    assert(state.prefix * state.power <= 1200000 && state.prefix * state.power >= -1200000) by(nonlinear_arith)
                        requires -40000 <= state.power <= 40000, -30 <= state.prefix <= 30;
                    let ghost v0 = value@;
                    value.mul_assign(Rational::new(10, 1).pow(state.prefix * state.power));

                    if let Some(conversion) = name.conversion() {
                        apply_conversion(state.power, value, conversion)?;
                    }
                    proof {
                        lemma_scale_take(all, i);
                        let a = old(value)@; let b = scale(all.take(i)); let c = qpow(10real, state.prefix as int * state.power as int); let d = qpow(factor_of(*name), state.power as int);
                        assert(qpow(1real, state.power as int) == 1real) by { lemma_qpow_one(state.power as int); }
                        assert(a * b * c * d == a * (b * (c * d))) by(nonlinear_arith);
                        assert(all.skip(i).skip(1) == all.skip(i + 1));
                        i = i + 1;
                    }
                }
                None => {
                    proof { assert(all.take(i) == all); }
                    break;
                }
            }
        }
        Ok(())
    }
}

proof fn lemma_qpow_one(n: int)
    ensures qpow(1real, n) == 1real
    decreases (if n >= 0 { n } else { -n })
{
    if n == 0 {} else if n > 0 { lemma_qpow_one(n - 1); } else { lemma_qpow_one(n + 1); }
}

fn main() {}
}
