use vstd::prelude::*;
verus! {

pub open spec fn qpow(x: real, n: int) -> real
    decreases (if n >= 0 { n } else { -n })
{
    if n == 0 { 1real } else if n > 0 { x * qpow(x, n - 1) } else { qpow(x, n + 1) / x }
}

pub struct Ent { pub prefix: int, pub power: int, pub fr: real }

pub open spec fn ent_scale(e: Ent) -> real { qpow(10real, e.prefix * e.power) * qpow(e.fr, e.power) }

pub open spec fn scale(s: Seq<Ent>) -> real
    decreases s.len()
{
    if s.len() == 0 { 1real } else { scale(s.drop_last()) * ent_scale(s.last()) }
}

#[verifier::external_body]
pub struct Rational { _p: u8 }
impl Rational {
    pub uninterp spec fn view(&self) -> real;
    #[verifier::external_body]
    pub fn mul_scale(&mut self, Ghost(e): Ghost<Ent>)
        ensures final(self)@ == old(self)@ * ent_scale(e)
    { unimplemented!() }
}

fn apply(v: &mut Rational, Ghost(s): Ghost<Seq<Ent>>, n: usize)
    requires n == s.len()
    ensures final(v)@ == old(v)@ * scale(s)
{
    let mut i: usize = 0;
    while i < n
        invariant i <= n, n == s.len(), v@ == old(v)@ * scale(s.take(i as int))
        decreases n - i
    {
        v.mul_scale(Ghost(s[i as int]));
        proof {
            let t = s.take(i as int + 1);
            assert(t.drop_last() == s.take(i as int));
            assert(t.last() == s[i as int]);
            let a = old(v)@; let b = scale(s.take(i as int)); let c = ent_scale(s[i as int]);
            assert(a * b * c == a * (b * c)) by(nonlinear_arith);
        }
        i += 1;
    }
    proof { assert(s.take(n as int) == s); }
}

proof fn roundtrip(v: real, a: real, b: real)
    requires a != 0real, b != 0real
    ensures v * a / b * b / a == v
{
    assert(v * a / b * b / a == v) by(nonlinear_arith) requires a != 0real, b != 0real;
}

proof fn f_to_k_to_f(f: real)
    ensures ((f - 32real) * (5real / 9real) + 273.15real - 273.15real) * (9real / 5real) + 32real == f
{
}

fn main() {}
}
