use vstd::prelude::*;
verus! {

pub mod num {
    use vstd::prelude::*;
    use core::ops;

    #[verifier::external_body]
    pub struct BigRational { _p: u8 }

    impl BigRational {
        pub uninterp spec fn view(&self) -> real;

        #[verifier::external_body]
        pub fn is_integer(&self) -> (r: bool)
            ensures r == (self@.floor() as real == self@)
        { unimplemented!() }
    }

    impl ops::Add<BigRational> for BigRational {
        type Output = BigRational;
        #[verifier::external_body]
        fn add(self, rhs: BigRational) -> (r: BigRational)
            ensures r@ == self@ + rhs@
        { unimplemented!() }
    }

    impl<'a, 'b> ops::Mul<&'b BigRational> for &'a BigRational {
        type Output = BigRational;
        #[verifier::external_body]
        fn mul(self, rhs: &'b BigRational) -> (r: BigRational)
            ensures r@ == self@ * rhs@
        { unimplemented!() }
    }

    impl ops::MulAssign<&BigRational> for BigRational {
        #[verifier::external_body]
        fn mul_assign(&mut self, rhs: &BigRational)
            ensures final(self)@ == old(self)@ * rhs@
        { unimplemented!() }
    }
}

use num::BigRational;

pub struct Rational {
    rational: BigRational,
}

impl Rational {
    pub closed spec fn view(&self) -> real { self.rational@ }
}

impl core::ops::Add<Rational> for Rational {
    type Output = Rational;

    fn add(self, rhs: Rational) -> (r: Self::Output)
        ensures r@ == self@ + rhs@
    {
        Self {
            rational: self.rational + rhs.rational,
        }
    }
}

impl core::ops::MulAssign<&Rational> for Rational {
    fn mul_assign(&mut self, rhs: &Rational)
        ensures final(self)@ == old(self)@ * rhs@
    {
        self.rational *= &rhs.rational;
    }
}

fn main() {}
}
