use vstd::prelude::*;
verus! {

pub mod shim {
    use vstd::prelude::*;

    #[verifier::external_body]
    #[verifier::reject_recursive_types(K)]
    #[verifier::reject_recursive_types(V)]
    pub struct BTreeMap<K, V> { _k: core::marker::PhantomData<(K, V)> }

    impl<K, V> BTreeMap<K, V> {
        pub uninterp spec fn view(&self) -> Map<K, V>;

        #[verifier::external_body]
        pub fn entry(&mut self, key: K) -> (e: btree_map::Entry<'_, K, V>)
            ensures
                match e {
                    btree_map::Entry::Vacant(v) => !old(self)@.contains_key(key) && v.key == key && *v.map == *old(self) && *final(v.map) == *final(self),
                    btree_map::Entry::Occupied(o) => old(self)@.contains_key(key) && o.key == key && *o.map == *old(self) && *final(o.map) == *final(self),
                }
        { unimplemented!() }
    }

    pub mod btree_map {
        use vstd::prelude::*;
        use super::BTreeMap;
        #[verifier::reject_recursive_types(K)]
        #[verifier::reject_recursive_types(V)]
        pub enum Entry<'a, K, V> {
            Vacant(VacantEntry<'a, K, V>),
            Occupied(OccupiedEntry<'a, K, V>),
        }
        #[verifier::reject_recursive_types(K)]
        #[verifier::reject_recursive_types(V)]
        pub struct VacantEntry<'a, K, V> { pub map: &'a mut BTreeMap<K, V>, pub key: K }
        #[verifier::reject_recursive_types(K)]
        #[verifier::reject_recursive_types(V)]
        pub struct OccupiedEntry<'a, K, V> { pub map: &'a mut BTreeMap<K, V>, pub key: K }

        impl<'a, K, V> VacantEntry<'a, K, V> {
            #[verifier::external_body]
            pub fn insert(self, v: V)
                ensures final(self.map)@ == old(self.map)@.insert(self.key, v)
            { unimplemented!() }
        }
        impl<'a, K, V> OccupiedEntry<'a, K, V> {
            #[verifier::external_body]
            pub fn get_mut(&mut self) -> (r: &mut V)
                ensures
                    *r == old(self).map@[old(self).key],
                    final(self).key == old(self).key,
                    *final(final(self).map) == *final(old(self).map),
                    final(self).map@ == old(self).map@.insert(old(self).key, *final(r)),
            { unimplemented!() }
        }
    }
}

use shim::{btree_map, BTreeMap};

#[derive(Clone, Copy, PartialEq, Eq)]
pub enum Unit { KiloGram, Meter, Second }

pub struct Powers {
    powers: BTreeMap<Unit, i32>,
}

impl Powers {
    pub closed spec fn view(&self) -> Map<Unit, i32> { self.powers@ }

    pub fn insert(&mut self, unit: Unit, power: i32)
        requires old(self)@.contains_key(unit) ==> i32::MIN <= old(self)@[unit] + power <= i32::MAX
        ensures
            final(self)@ == old(self)@.insert(unit, if old(self)@.contains_key(unit) { (old(self)@[unit] + power) as i32 } else { power })
    {
        match self.powers.entry(unit) {
            btree_map::Entry::Vacant(e) => {
                e.insert(power);
            }
            btree_map::Entry::Occupied(mut e) => {
                *e.get_mut() += power;
            }
        }
    }
}

fn main() {}
}
