use vstd::prelude::*;
verus! {

pub mod syntree {
    use vstd::prelude::*;
    #[verifier::external_body]
    pub struct Error { _p: u8 }
    #[verifier::external_body]
    #[verifier::reject_recursive_types(P)]
    pub struct Checkpoint<P> { _p: core::marker::PhantomData<P> }
    impl<P> Clone for Checkpoint<P> {
        #[verifier::external_body]
        fn clone(&self) -> Self { unimplemented!() }
    }
    pub mod pointer {
        pub trait Width { type Pointer; }
        impl Width for u32 { type Pointer = u32; }
    }
}

use std::cmp::Ordering;
use syntree::Checkpoint;

#[derive(Debug, Clone, Copy, PartialEq, Eq)]
#[allow(non_camel_case_types)]
pub enum Syntax { WHITESPACE, STAR, STARSTAR, SLASH, PLUS, DASH, CARET, COMMA, OPEN_PAREN, CLOSE_PAREN, OPEN_BRACE, CLOSE_BRACE, TO, WORD, SENTENCE, NUMBER, WITH_UNIT, UNIT, FN_NAME, FN_ARGUMENTS, FN_CALL, PERCENTAGE, OP_CAST, OP_ADD, OP_SUB, OP_IMPLICIT_MUL, OP_MUL, OP_DIV, OP_POWER, OPERATOR, OPERATION, ERROR, EOF }

#[derive(Debug, Clone, Copy, PartialEq, Eq, Hash)]
pub struct Skip(pub usize);

impl Skip {
    pub const ZERO: Self = Self(0);
    pub const ONE: Self = Self(1);
}

#[verifier::external_body]
pub struct Parser<'a> { _p: &'a u8 }

type PointerU32 = <u32 as syntree::pointer::Width>::Pointer;
type Result<T, E = syntree::Error> = std::result::Result<T, E>;

use Syntax::*;

pub uninterp spec fn default_of<T>() -> T;
pub assume_specification<T: Default>[ std::mem::take ](x: &mut T) -> (r: T)
    ensures r == *old(x), *final(x) == default_of::<T>();

impl<'a> Parser<'a> {
    #[verifier::external_body]
    pub(crate) fn checkpoint(&mut self) -> Result<Checkpoint<<u32 as syntree::pointer::Width>::Pointer>> { unimplemented!() }
    #[verifier::external_body]
    pub(crate) fn close_at(&mut self, c: &Checkpoint<<u32 as syntree::pointer::Width>::Pointer>, kind: Syntax) -> Result<()> { unimplemented!() }
    #[verifier::external_body]
    pub(crate) fn skip(&mut self, skip: Skip) -> Result<()> { unimplemented!() }
    #[verifier::external_body]
    pub(crate) fn bump_node(&mut self, kind: Syntax) -> Result<()> { unimplemented!() }
    #[verifier::external_body]
    pub(crate) fn nth(&mut self, skip: Skip, n: usize) -> Syntax { unimplemented!() }
    #[verifier::external_body]
    pub fn count_skip(&mut self) -> Skip { unimplemented!() }
}

#[verifier::external_body]
fn value(p: &mut Parser<'_>, skip: Skip) -> Result<Option<Checkpoint<PointerU32>>> { unimplemented!() }

#[verifier::exec_allows_no_decreases_clause]
pub fn operation(p: &mut Parser<'_>, mut skip: Skip) -> Result<Option<Skip>> {
    let open = p.checkpoint()?;

    let mut stack = Vec::<(Checkpoint<PointerU32>, i32, bool)>::new();
    let mut first = true;

    loop {
        let is_unit = stack.last().map(|e| e.2).unwrap_or_default();

        let cur = match operand(p, skip, is_unit)? {
            Some(c) => c,
            None => return Ok(None),
        };

        let (priority, operator, extra, cur_skip) = match op(p) {
            Some(out) => out,
            None => break,
        };

        if std::mem::take(&mut first) {
            stack.push((open.clone(), priority, extra));
        }

        while let Some(prev) = stack.last_mut() {
            match priority.cmp(&prev.1) {
                Ordering::Less => {
                    p.close_at(&prev.0, OPERATION)?;
                    *prev = (prev.0.clone(), priority, extra);
                    continue;
                }
                Ordering::Greater => {
                    stack.push((cur, priority, extra));
                    break;
                }
                Ordering::Equal => {
                    break;
                }
            }
        }

        // Defer the skip as long as possible so it's not included in the
        // OPERATION span.
        p.skip(cur_skip)?;
        p.bump_node(operator)?;
        skip = p.count_skip();
    }

    while let Some((last, _, _)) = stack.pop() {
        p.close_at(&last, OPERATION)?;
    }

    return Ok(Some(skip));

    fn operand(
        p: &mut Parser<'_>,
        skip: Skip,
        is_unit: bool,
    ) -> Result<Option<Checkpoint<PointerU32>>> {
        let c = if is_unit {
            p.skip(skip)?;
            unit(p, Skip::ZERO)?
        } else {
            value(p, skip)?
        };

        Ok(c)
    }

    /// Get the binding power of an operator.
    fn op(p: &mut Parser<'_>) -> Option<(i32, Syntax, bool, Skip)> {
        let skip = p.count_skip();

        let (prio, kind, is_unit) = match p.nth(skip, 0) {
            TO => (1, OP_CAST, true),
            PLUS => (2, OP_ADD, false),
            DASH => (2, OP_SUB, false),
            STAR => (3, OP_MUL, false),
            SLASH => (3, OP_DIV, false),
            CARET | STARSTAR => (10, OP_POWER, false),
            _ => return None,
        };

        Some((prio, kind, is_unit, skip))
    }
}

/// Parse a unit.
#[verifier::exec_allows_no_decreases_clause]
pub fn unit(p: &mut Parser<'_>, mut skip: Skip) -> Result<Option<Checkpoint<PointerU32>>> {
    let mut c = None;

    'outer: loop {
        // lead
        let kind = match p.nth(skip, 0) {
            NUMBER => NUMBER,
            WORD => WORD,
            _ => break,
        };

        p.skip(skip)?;

        if c.is_none() {
            c = Some(p.checkpoint()?);
        }

        p.bump_node(kind)?;

        // Trailing no-skip symbols.
        loop {
            let kind = match p.nth(Skip::ZERO, 0) {
                WORD | TO => WORD,
                NUMBER => NUMBER,
                STAR => OP_MUL,
                SLASH => OP_DIV,
                CARET | STARSTAR => OP_POWER,
                WHITESPACE => { skip = Skip::ONE; break; }
                _ => break 'outer,
            };

            p.bump_node(kind)?;
        }
    }

    if let Some(c) = &c {
        p.close_at(c, UNIT)?;
    }

    Ok(c)
}

fn main() {}
}
