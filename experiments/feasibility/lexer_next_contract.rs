use vstd::prelude::*;
verus! {

#[derive(Debug, Clone, Copy, PartialEq, Eq)]
#[allow(non_camel_case_types)]
pub enum Syntax { WHITESPACE, STAR, STARSTAR, SLASH, PLUS, DASH, CARET, COMMA, OPEN_PAREN, CLOSE_PAREN, OPEN_BRACE, CLOSE_BRACE, TO, WORD, NUMBER, PERCENTAGE, ERROR, EOF }
use Syntax::*;

#[derive(Debug, Clone, Copy, PartialEq, Eq)]
#[non_exhaustive]
pub struct Token {
    pub len: usize,
    pub kind: Syntax,
}

pub struct Lexer<'a> {
    source: &'a str,
    pos: usize,
    escape: bool,
}

pub uninterp spec fn rest(src: &str, pos: usize) -> Option<Seq<char>>;
pub uninterp spec fn utf8_len(c: char) -> usize;
pub uninterp spec fn is_ws(c: char) -> bool;

#[verifier::external_body]
fn char_is_whitespace(c: char) -> (r: bool) ensures r == is_ws(c) { c.is_whitespace() }


impl<'a> Lexer<'a> {
    pub closed spec fn wf(&self) -> bool { rest(self.source, self.pos).is_some() && rest(self.source, self.pos).unwrap().len() < usize::MAX }
    pub closed spec fn rem(&self) -> Seq<char> { rest(self.source, self.pos).unwrap() }
    pub closed spec fn src(&self) -> &str { self.source }
    pub closed spec fn p(&self) -> usize { self.pos }

    #[verifier::external_body]
    fn peek(&self) -> (r: Option<char>)
        requires self.wf()
        ensures r == (if self.rem().len() > 0 { Some(self.rem()[0]) } else { None })
    {
        self.source.get(self.pos..)?.chars().next()
    }

    #[verifier::external_body]
    fn peek2(&mut self) -> (r: Option<(char, char)>)
        requires old(self).wf()
        ensures *final(self) == *old(self),
            r == (if old(self).rem().len() > 1 { Some((old(self).rem()[0], old(self).rem()[1])) } else if old(self).rem().len() > 0 { Some((old(self).rem()[0], '\0')) } else { None })
    {
        let mut it = self.source.get(self.pos..)?.chars();
        Some((it.next()?, it.next().unwrap_or_default()))
    }

    #[verifier::external_body]
    fn step(&mut self)
        requires old(self).wf()
        ensures final(self).wf(), final(self).src() == old(self).src(), final(self).escape == old(self).escape,
            old(self).rem().len() > 0 ==> final(self).rem() == old(self).rem().skip(1) && final(self).p() == old(self).p() + utf8_len(old(self).rem()[0]) && utf8_len(old(self).rem()[0]) >= 1,
            old(self).rem().len() == 0 ==> final(self).p() == old(self).p(),
    {
        if let Some(c) = self.source.get(self.pos..).and_then(|s| s.chars().next()) {
            self.pos += c.len_utf8();
        }
    }

    fn consume_number(&mut self, mut dot: bool) -> (count: usize)
        requires old(self).wf()
        ensures final(self).wf(), final(self).src() == old(self).src(), final(self).escape == old(self).escape,
            count as int <= old(self).rem().len() - final(self).rem().len(),
            final(self).rem() == old(self).rem().skip(old(self).rem().len() - final(self).rem().len()),
            (count == 0) == (final(self).rem().len() == old(self).rem().len()),
            final(self).rem().len() <= old(self).rem().len(),
            final(self).p() >= old(self).p() + (old(self).rem().len() - final(self).rem().len()),
            old(self).rem().len() > 0 && '0' <= old(self).rem()[0] <= '9' ==> count > 0,
    {
        let mut count = 0;

        while let Some((a, b)) = self.peek2()
            invariant old(self).wf(), self.wf(), self.src() == old(self).src(), self.escape == old(self).escape,
                self.rem().len() <= old(self).rem().len(),
                count as int == old(self).rem().len() - self.rem().len(),
                self.rem() == old(self).rem().skip(old(self).rem().len() - self.rem().len()),
                self.p() >= old(self).p() + (old(self).rem().len() - self.rem().len()),
                count == 0 ==> self.rem() == old(self).rem(),
            ensures
                old(self).rem().len() > 0 && '0' <= old(self).rem()[0] <= '9' ==> count > 0,
            decreases self.rem().len()
        {
            let ghost g0 = self.rem().len();
            match (a, b) {
                ('0'..='9', _) => {
                    self.step();
                    count += 1;
                }
                ('.', _) if !dot => {
                    self.step();
                    dot = true;
                    count += 1;
                }
                ('e' | 'E', '-' | '+' | '0'..='9') => {
                    self.step();
                    count += 1;

                    if let Some('-' | '+') = self.peek() {
                        self.step();
                        count += 1;
                    }

                    while let Some('0'..='9') = self.peek()
                        invariant old(self).wf(), self.wf(), self.src() == old(self).src(), self.escape == old(self).escape,
                            self.rem().len() <= old(self).rem().len(),
                            count as int == old(self).rem().len() - self.rem().len(),
                            self.rem() == old(self).rem().skip(old(self).rem().len() - self.rem().len()),
                            self.p() >= old(self).p() + (old(self).rem().len() - self.rem().len()),
                            self.rem().len() < g0,
                        decreases self.rem().len()
                    {
                        self.step();
                        count += 1;
                    }
                }
                _ => {
                    break;
                }
            }
        }

        count
    }


    #[verifier::external_body]
    fn next__o1(&self, start: usize) -> (r: bool)
    { &self.source[start..self.pos] == "to" }

    fn consume_word(&mut self) -> (count: usize)
        requires old(self).wf()
        ensures final(self).wf(), final(self).src() == old(self).src(), final(self).escape == old(self).escape,
            final(self).rem().len() <= old(self).rem().len(),
            (count == 0) == (final(self).rem().len() == old(self).rem().len()),
            final(self).p() >= old(self).p() + (old(self).rem().len() - final(self).rem().len()),
    {
        let mut count = 0;

        while let Some('a'..='z' | 'A'..='Z' | '0'..='9' | '°' | '\'') = self.peek()
            invariant old(self).wf(), self.wf(), self.src() == old(self).src(), self.escape == old(self).escape,
                self.rem().len() <= old(self).rem().len(),
                count as int == old(self).rem().len() - self.rem().len(),
                self.p() >= old(self).p() + (old(self).rem().len() - self.rem().len()),
            decreases self.rem().len()
        {
            count += 1;
            self.step();
        }

        count
    }

    fn consume_whitespace(&mut self)
        requires old(self).wf()
        ensures final(self).wf(), final(self).src() == old(self).src(), final(self).escape == old(self).escape,
            final(self).rem().len() <= old(self).rem().len(),
            final(self).p() >= old(self).p() + (old(self).rem().len() - final(self).rem().len()),
            old(self).rem().len() > 0 && vstd::std_specs::char::is_white_space(old(self).rem()[0]) ==> final(self).rem().len() < old(self).rem().len(),
    {
        while matches!(self.peek(), Some(c) if c.is_whitespace())
            invariant old(self).wf(), self.wf(), self.src() == old(self).src(), self.escape == old(self).escape,
                self.rem().len() <= old(self).rem().len(), self.p() >= old(self).p() + (old(self).rem().len() - self.rem().len()),
                old(self).rem().len() > 0 && vstd::std_specs::char::is_white_space(old(self).rem()[0]) && self.rem().len() == old(self).rem().len() ==> self.rem() == old(self).rem(),
            decreases self.rem().len()
        {
            self.step();
        }
    }
}


impl Lexer<'_> {
    fn next(&mut self) -> (r: Option<Token>)
        requires old(self).wf(), !old(self).escape
        ensures final(self).wf(), final(self).src() == old(self).src(),
            r.is_none() <==> old(self).rem().len() == 0,
            r.is_some() ==> final(self).rem().len() < old(self).rem().len() && r.unwrap().len >= 1 && final(self).p() == old(self).p() + r.unwrap().len,
    {
        let start = self.pos;
        let c = self.peek()?;

        let kind = match c {
            c if c.is_whitespace() => {
                self.consume_whitespace();
                WHITESPACE
            }
            '{' => {
                self.step();
                self.escape = true;
                OPEN_BRACE
            }
            '.' => {
                self.step();

                if self.consume_number(true) == 0 {
                    ERROR
                } else {
                    NUMBER
                }
            }
            ',' => {
                self.step();
                COMMA
            }
            '0'..='9' => {
                self.consume_number(false);
                NUMBER
            }
            '*' => {
                self.step();

                if matches!(self.peek(), Some('*')) {
                    self.step();
                    STARSTAR
                } else {
                    STAR
                }
            }
            '/' => {
                self.step();
                SLASH
            }
            '+' => {
                self.step();

                if self.consume_number(false) > 0 {
                    NUMBER
                } else {
                    PLUS
                }
            }
            '^' => {
                self.step();
                CARET
            }
            _ => {
                if self.consume_word() > 0 {
                    match self.next__o1(start) {
                        true => TO,
                        _ => WORD,
                    }
                } else {
                    self.step();
                    ERROR
                }
            }
        };

        Some(Token {
            len: self.pos.saturating_sub(start),
            kind,
        })
    }
}

fn main() {}
}
