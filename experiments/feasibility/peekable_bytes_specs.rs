use vstd::prelude::*;
use std::iter::Peekable;
use std::str::Bytes;
verus! {

pub uninterp spec fn pk_rem<I: Iterator>(it: &Peekable<I>) -> Seq<I::Item>;
pub uninterp spec fn str_bytes(s: &str) -> Seq<u8>;

#[verifier::external_type_specification]
#[verifier::external_body]
#[verifier::reject_recursive_types(I)]
pub struct ExPeekable<I: Iterator>(Peekable<I>);

#[verifier::external_type_specification]
#[verifier::external_body]
pub struct ExBytes<'a>(Bytes<'a>);

#[verifier::external_body]
fn bytes_peekable<'a>(s: &'a str) -> (it: Peekable<Bytes<'a>>)
    ensures pk_rem(&it) == str_bytes(s)
{ s.bytes().peekable() }

pub assume_specification<I: Iterator>[ Peekable::<I>::peek ](it: &mut Peekable<I>) -> (r: Option<&I::Item>)
    ensures pk_rem(final(it)) == pk_rem(old(it)),
        r == (if pk_rem(old(it)).len() > 0 { Some(&pk_rem(old(it))[0]) } else { None::<&I::Item> });

pub assume_specification<I: Iterator>[ <Peekable<I> as Iterator>::next ](it: &mut Peekable<I>) -> (r: Option<I::Item>)
    ensures 
        r == (if pk_rem(old(it)).len() > 0 { Some(pk_rem(old(it))[0]) } else { None::<I::Item> }),
        pk_rem(final(it)) == (if pk_rem(old(it)).len() > 0 { pk_rem(old(it)).skip(1) } else { pk_rem(old(it)) });

fn count_digits(number: &str) -> (r: u32)
{
    let mut it = bytes_peekable(number);
    let mut n = 0u32;

    let neg = if let Some(b'-' | b'+') = it.peek() {
        matches!(it.next(), Some(b'-'))
    } else {
        false
    };

    while let Some(b) = it.next()
        invariant true
        decreases pk_rem(&it).len()
    {
        match b {
            b'0'..=b'9' => {
                n = n.checked_add(1).unwrap_or(0);
            }
            _ => { break; }
        }
    }
    for b in it {
        match b {
            b'0'..=b'9' => { n = n.checked_add(1).unwrap_or(0); }
            _ => { return 0; }
        }
    }
    n
}

fn main() {}
}
